import os, sys, time, traceback, io
import numpy as np, tskit, msprime
import tsdate
from tsdate import rescaling, util, prior, discrete, variational, phasing

def renumber(ts, perm_nonsample_seed):
    # permute non-sample node ids
    rng = np.random.default_rng(perm_nonsample_seed)
    n = ts.num_nodes
    ns = np.array([u for u in range(n) if not ts.node(u).is_sample()])
    perm = np.arange(n)
    perm[ns] = rng.permutation(ns)   # old id -> new id
    t = ts.dump_tables()
    inv = np.argsort(perm)  # new id -> old id
    nodes = t.nodes.copy(); t.nodes.clear()
    for new in range(n):
        r = nodes[inv[new]]
        t.nodes.append(r)
    t.edges.parent = perm[t.edges.parent].astype(np.int32)
    t.edges.child = perm[t.edges.child].astype(np.int32)
    t.mutations.node = perm[t.mutations.node].astype(np.int32)
    t.sort(); t.build_index(); t.compute_mutation_parents()
    return t.tree_sequence(), perm

ts = msprime.sim_ancestry(4, sequence_length=1e4, recombination_rate=1e-8, population_size=1e4, random_seed=3)
ts = msprime.sim_mutations(ts, rate=1e-7, random_seed=1)
print(ts.num_trees, ts.num_nodes)
for ior in [False, True]:
  for m in ["inside_outside", "maximization"]:
    if ior and m=="maximization": continue
    kw = dict(ignore_oldest_root=ior) if m=="inside_outside" else {}
    d0 = tsdate.date(ts, mutation_rate=1e-7, method=m, population_size=1e4, **kw)
    for seed in range(3):
        ts2, perm = renumber(ts, seed)
        d2 = tsdate.date(ts2, mutation_rate=1e-7, method=m, population_size=1e4, **kw)
        err = np.max(np.abs(d2.nodes_time[perm] - d0.nodes_time)/ (d0.nodes_time+1))
        print(m, "ior", ior, "seed", seed, "maxrelerr", err)
