import numpy as np, itertools, collections, math
from tsdate import rescaling
res=collections.Counter(); ex={}
# fixed changepoints
for m in range(1,6):
    for counts in itertools.product((0.,1.,2.,5.),repeat=m):
        if sum(counts)==0: continue
        c=np.array(counts)
        for ep in range(1,m+3):
            try: e=rescaling._fixed_changepoints(c,ep)
            except BaseException as x: res[("fixed EXC",type(x).__name__)]+=1; continue
            Y=np.append(0,np.cumsum(c)); Z=Y/Y[-1]
            ok = e[0]==0 and e[-1]==m and np.all(np.diff(e)>=0) and len(e)==ep+1
            for k in range(1,ep):
                idx=max(i for i in range(m+1) if Z[i]<=k/ep)
                if e[k]!=idx: ok=False
            res[("fixed", ok)]+=1
            if not ok: ex.setdefault("fixed",(counts,ep,e))
def dev(y,n):
    return 0.0 if y==0 else -2*y*(math.log(y)-math.log(n)-1)
for m in range(1,7):
    for counts in itertools.product((0.,1.,2.,5.),repeat=m):
        for offs in [tuple(1. for _ in range(m)), tuple(1.+(i%2) for i in range(m))]:
            for pen in (0.,2.,10.):
                for mc in (0.,1.,3.):
                    for mo in (0.,2.):
                        c=np.array(counts); o=np.array(offs)
                        try: b=rescaling._poisson_changepoints(c,o,pen,mc,mo)
                        except BaseException as x: res[("pois EXC",type(x).__name__)]+=1; continue
                        best=math.inf
                        for cuts in itertools.product((0,1),repeat=m-1):
                            br=[0]+[i+1 for i,x in enumerate(cuts) if x]+[m]
                            cost=0; feas=True
                            for i,j in zip(br[:-1],br[1:]):
                                y=c[i:j].sum(); n=o[i:j].sum()
                                if n<mo or y<mc: feas=False;break
                                cost+=dev(y,n)+pen
                            if feas: best=min(best,cost)
                        # returned
                        br=list(b)
                        feas = br[0]==0 and br[-1]==m and all(x<y for x,y in zip(br[:-1],br[1:]))
                        cost=0
                        if feas:
                            for i,j in zip(br[:-1],br[1:]):
                                y=c[i:j].sum(); n=o[i:j].sum()
                                if n<mo or y<mc: feas=False;break
                                cost+=dev(y,n)+pen
                        if best==math.inf: k="no-feasible"
                        elif feas and cost<=best+1e-9: k="optimal"
                        elif feas: k="SUBOPT"
                        else: k="INFEASIBLE-RETURN"
                        res[("pois",k, "zeros" if 0 in counts else "nozero", "mc>0" if mc>0 else "mc0")]+=1
                        if k in("SUBOPT","INFEASIBLE-RETURN"): ex.setdefault((k,"zeros" if 0 in counts else "nozero","mc>0" if mc>0 else "mc0"),(counts,offs,pen,mc,mo,br,cost,best))
for k,v in sorted(res.items(), key=str): print(v,k)
for k,v in ex.items(): print(k,v)
