import numpy as np, sys, itertools, collections, warnings, logging
import tsdate
from lib import *
logging.disable(logging.CRITICAL)
res=collections.Counter(); ex={}
def setflags(ts, internal_fixed, leaf_times):
    t=ts.dump_tables()
    fl=t.nodes.flags.copy(); tm=t.nodes.time.copy()
    for u in internal_fixed: fl[u]=1
    for u,x in leaf_times.items(): tm[u]=x
    t.nodes.flags=fl; t.nodes.time=tm
    t.sort()
    return t.tree_sequence()
mbl=1e-3
for (n,L,R) in [(3,2,1),(4,2,1)]:
    U=universe(n,L,R)
    for ti,ts in enumerate(U):
        E=ts.num_edges
        internal=[u for u in range(ts.num_nodes) if not ts.node(u).is_sample()]
        pats=[tuple(1 for _ in range(E)), tuple((i%3) for i in range(E)), tuple(5 if i==0 else 0 for i in range(E)), tuple(3 if i==E-1 else 0 for i in range(E))]
        for counts in pats:
          ts2=add_muts(ts,counts)
          for k in (1,2):
            for fixed in itertools.combinations(internal,k):
              for lt in ({}, {0:0.5}):
                ts3=setflags(ts2,fixed,lt)
                for ci in (None,0,1000):
                    try:
                        d=tsdate.date(ts3,mutation_rate=0.1,min_branch_length=mbl,rescaling_intervals=0,constr_iterations=ci)
                    except BaseException as e:
                        res[("EXC",ci,type(e).__name__,str(e)[:50])]+=1; continue
                    tin=ts3.nodes_time; tout=d.nodes_time
                    for s in ts3.samples():
                        ch=set(d.edges_child[d.edges_parent==s])
                        if tout[s]==tin[s]: res[("kept",ci, bool(ch))]+=1
                        else:
                            mc=max(tout[c] for c in ch) if ch else None
                            if ch and tout[s]==mc+mbl and tout[s]>tin[s]: res[("minimal push",ci)]+=1
                            else:
                                res[("VIOL",ci)]+=1
                                ex.setdefault(("VIOL",ci),(n,L,R,ti,counts,fixed,lt,s,tin[s],tout[s],mc))
for k,v in sorted(res.items(), key=str): print(v,k, ex.get(k,""))
