import itertools, numpy as np, tskit
from gen import enumerate_args, to_ts, canon
_cache={}
def universe(n,L,R):
    k=(n,L,R)
    if k not in _cache:
        seen={}
        for nn,ed,h in enumerate_args(n,L,R):
            ts=to_ts(n,L,nn,ed); seen.setdefault(canon(ts),ts)
        _cache[k]=list(seen.values())
    return _cache[k]
def add_muts(ts, counts, above_root=0):
    t=ts.dump_tables()
    req=[]  # (locus, node)
    for e,c in zip(ts.edges(), counts):
        span=int(e.right-e.left)
        for k in range(c):
            req.append((int(e.left)+(k%span), e.child))
    byloc={}
    for loc,node in req: byloc.setdefault(loc,[]).append(node)
    for loc,nodes in byloc.items():
        m=len(nodes)
        for j,node in enumerate(nodes):
            s=t.sites.add_row(loc+(j+1)/(m+1),"A")
            t.mutations.add_row(s,node,derived_state="T")
    t.sort(); t.build_index(); t.compute_mutation_parents()
    return t.tree_sequence()
def scale_times(ts, c):
    t=ts.dump_tables(); t.nodes.time=t.nodes.time*c; t.mutations.time=np.full(t.mutations.num_rows, tskit.UNKNOWN_TIME); return t.tree_sequence()
