import numpy as np, sys, itertools, collections, warnings, logging
import tsdate, tskit
from tsdate import rescaling
from lib import *
exec(open('probe_c22.py').read().split("worst=0")[0].split("res=collections")[1].join(["res=collections",""])) if False else None
logging.disable(logging.CRITICAL)
def add_inds(ts):
    t=ts.dump_tables()
    ind=t.nodes.individual.copy()
    for i in range(ts.num_samples//2):
        j=t.individuals.add_row()
        ind[2*i]=j; ind[2*i+1]=j
    t.nodes.individual=ind
    return t.tree_sequence()
res=collections.Counter(); ex={}
for (n,L,R) in [(4,1,0),(4,2,1)]:
    U=universe(n,L,R)
    for ti,ts in enumerate(U):
        ts=add_inds(ts)
        E=ts.num_edges
        pats=[tuple(1 for _ in range(E)), tuple(((i+1)%3) for i in range(E)), tuple(2 if ts.edge(i).child<n else 1 for i in range(E))]
        for counts in pats:
            ts2=add_muts(ts,counts)
            for seg in (False,True):
                try:
                    d,fit=tsdate.date(ts2,mutation_rate=0.1,rescaling_intervals=1,singletons_phased=False,return_fit=True,match_segregating_sites=seg)
                except BaseException as e:
                    res[("EXC",type(e).__name__,str(e)[:60])]+=1; continue
                Lk = fit.edge_likelihoods if seg else fit.sizebiased_likelihoods
                base,_ = rescaling.count_mutations(ts2, size_biased=not seg)
                exp=base[:,0].copy()
                unph=np.zeros(E,bool); unph[fit.block_edges[:,0]]=True; unph[fit.block_edges[:,1]]=True
                exp[unph]=0
                for m,b in enumerate(fit.mutation_blocks):
                    if b<0: continue
                    e0,e1=fit.block_edges[b]
                    fin=fit.mutation_edges[m]; oth=e1 if fin==e0 else e0
                    q=fit.mutation_phase[m]
                    exp[fin]+=q; exp[oth]+=1-q
                    res[("final_is_edge1",bool(fin==e1), "q>.5", bool(q>0.5+1e-9))]+=1
                if np.allclose(exp,Lk[:,0],atol=1e-9): res["ok"]+=1
                else:
                    res["VIOL"]+=1; ex.setdefault("VIOL",(n,L,R,ti,counts,seg,exp,Lk[:,0]))
for k,v in sorted(res.items(), key=str): print(v,k, ex.get(k,""))
