import time, os, io, multiprocessing as mp, numpy as np
t=time.time()
import tsdate
from lib import *
print("import",time.time()-t)
U=universe(3,2,1)
inputs=[add_muts(ts,tuple(1 for _ in range(ts.num_edges))) for ts in U]
def work(i):
    t=time.time()
    try:
        d=tsdate.date(inputs[i],mutation_rate=0.1,rescaling_intervals=0)
        return (i,float(d.nodes_time.sum()),os.getpid(),time.time()-t)
    except BaseException as e: return (i,type(e).__name__,os.getpid(),time.time()-t)
if __name__=="__main__":
    t=time.time(); print(work(0)); print("warm",time.time()-t)
    t=time.time(); print(work(1)); print("second",time.time()-t)
    ctx=mp.get_context("fork")
    for rep in range(2):
        t=time.time()
        with ctx.Pool(16) as p:
            r=p.map(work,list(range(len(inputs)))*40,chunksize=4)
        print(len(r),len({x[2] for x in r}),"wall",time.time()-t, "sum cpu",sum(x[3] for x in r), "max", max(x[3] for x in r))
