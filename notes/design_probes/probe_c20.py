import itertools, numpy as np, tskit, sys
import tsdate
def star(n, counts, L=1.0):
    t=tskit.TableCollection(sequence_length=L)
    for i in range(n): t.nodes.add_row(flags=1,time=0)
    p=t.nodes.add_row(flags=0,time=1)
    for i in range(n): t.edges.add_row(0,L,p,i)
    k=0
    for i,c in enumerate(counts):
        for j in range(c):
            k+=1
            s=t.sites.add_row(L*k/(sum(counts)+1),"A"); t.mutations.add_row(s,i,derived_state="T")
    t.sort(); t.build_index(); t.compute_mutation_parents()
    return t.tree_sequence()
for counts in [(1,0),(3,2,1),(20,20),(30,0,5)]:
  for ms in [1000, 10, 2]:
    for it in [1,2,5,25]:
        ts=star(len(counts),counts)
        mu=0.5
        d,fit=tsdate.variational_gamma(ts,mutation_rate=mu,max_iterations=it,max_shape=ms,rescaling_intervals=0,regularise_roots=False,return_fit=True)
        p=fit.node_posteriors()[-1]
        shape=p['mean']**2/p['variance']; rate=p['mean']/p['variance']
        Y=sum(counts); M=mu*len(counts)*1.0
        tshape=1+Y; trate=M
        if tshape>ms:
            d_=(ms-1)/Y; tshape=ms; trate=M*d_
        print(counts,ms,it,"got",shape,rate,"want",tshape,trate, "OK" if abs(shape-tshape)<1e-9*tshape and abs(rate-trate)<1e-9*trate else "DIFF")
