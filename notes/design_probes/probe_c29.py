import numpy as np, itertools, tskit, tsdate, logging, collections, warnings
from tsdate import util
from lib import *
from probe_c15 import isolate
logging.disable(logging.CRITICAL)
res=collections.Counter(); ex={}
def check(ts, tag):
    try:
        with warnings.catch_warnings():
            warnings.simplefilter("ignore")
            out=util.split_disjoint_nodes(ts)
    except BaseException as e:
        k=("EXC",tag,type(e).__name__,str(e)[:50]); res[k]+=1; ex.setdefault(k,ts); return
    # map back
    back=np.arange(out.num_nodes)
    for u in range(ts.num_nodes,out.num_nodes):
        md=out.node(u).metadata
        back[u]=md["unsplit_node_id"] if isinstance(md,dict) and "unsplit_node_id" in md else -5
    ok=True
    for x in np.arange(0,ts.sequence_length,0.25):
        a=ts.at(x); b=out.at(x)
        pa={(u,a.parent(u)) for u in a.nodes() if a.parent(u)!=-1}
        pb={(back[u],back[b.parent(u)]) for u in b.nodes() if b.parent(u)!=-1}
        if pa!=pb: ok=False
    # genotypes
    if ts.num_sites and not np.array_equal(ts.genotype_matrix(), out.genotype_matrix()): ok=False
    # contiguity
    for u in range(out.num_nodes):
        if out.node(u).is_sample(): continue
        ivs=sorted({(e.left,e.right) for e in out.edges() if e.parent==u or e.child==u})
        r=None
        for l,rr in ivs:
            if r is not None and l>r: ok=False
            r=rr if r is None else max(r,rr)
    out2=util.split_disjoint_nodes(out)
    if out2.num_nodes!=out.num_nodes: ok=False
    res[("ok" if ok else "VIOL",tag)]+=1
    if not ok: ex.setdefault(("VIOL",tag),ts)
for (n,L,R) in [(3,3,2),(2,3,2)]:
    for ti,ts0 in enumerate(universe(n,L,R)):
        E=ts0.num_edges
        ts1=add_muts(ts0,tuple(1 for _ in range(E)))
        check(ts1,"plain")
        # isolated sample with mutation
        ts2=isolate(ts0,0,{L-1})
        t=ts2.dump_tables(); s=t.sites.add_row(L-0.5,"A"); t.mutations.add_row(s,0,derived_state="T"); t.sort(); t.build_index(); t.compute_mutation_parents()
        check(t.tree_sequence(),"iso-mut")
        # region w/out edges at end with a site
        t=ts1.dump_tables(); t.sequence_length=L+1; s=t.sites.add_row(L+0.5,"A"); t.mutations.add_row(s,0,derived_state="T"); t.sort(); t.build_index(); t.compute_mutation_parents()
        check(t.tree_sequence(),"tail-site")
        t=ts1.dump_tables(); t.sequence_length=L+1; s=t.sites.add_row(L+0.5,"A"); t.sort(); t.build_index(); t.compute_mutation_parents()
        check(t.tree_sequence(),"tail-empty-site")
for k,v in sorted(res.items(), key=str): print(v,k)
for k,v in ex.items():
    print(k); print(v.draw_text()); break
ts=ex[("VIOL","plain")]
print(ts.draw_text())
out=util.split_disjoint_nodes(ts)
print(out.draw_text())
print(out.tables.nodes)
print(ts.tables.edges); print(out.tables.edges)
print(ts.genotype_matrix()); print(out.genotype_matrix())
out2=util.split_disjoint_nodes(out); print(out2.num_nodes,out.num_nodes)
