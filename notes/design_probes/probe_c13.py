import numpy as np, itertools, tskit, tsdate, logging, collections, warnings, scipy.stats
from lib import *
logging.disable(logging.CRITICAL)
res=collections.Counter(); ex={}
for (n,L,R) in [(3,2,1),(4,2,1),(3,3,2)]:
    for ti,ts0 in enumerate(universe(n,L,R)):
        E=ts0.num_edges
        for counts in [tuple(1+(i%3) for i in range(E)), tuple(2 for i in range(E)), tuple(0 for i in range(E)), tuple(4 if i==1 else 0 for i in range(E))]:
            ts=add_muts(ts0,counts)
            for space in ("linear","logarithmic"):
              for eps in (1e-6,0.1):
                for tp in (6, np.array([0,0.5,1,2,4,8.])):
                    pri=tsdate.build_prior_grid(ts,population_size=1.0,timepoints=tp)
                    try:
                        d,fit=tsdate.maximization(ts,mutation_rate=0.3,priors=pri,eps=eps,probability_space=space,return_fit=True)
                    except BaseException as e: res[("EXC",type(e).__name__,str(e)[:40])]+=1; continue
                    grid=fit.lik.timepoints; pm=fit.posterior_mean
                    idx={u:int(np.argmin(np.abs(grid-pm[u]))) for u in range(ts.num_nodes) if not ts.node(u).is_sample()}
                    ok=all(grid[i]==pm[u] for u,i in idx.items())
                    mut=np.zeros(ts.num_edges,int)
                    for m in ts.mutations():
                        if m.edge>=0: mut[m.edge]+=1
                    for e in ts.edges():
                        if e.child in idx and idx[e.child]>idx[e.parent]: ok=False; ex.setdefault("order",(n,L,R,ti,counts))
                    children=set(ts.edges_child)
                    for u,i in idx.items():
                        ins=np.array(fit.inside[u])
                        if space=="logarithmic": ins=np.exp(ins)
                        if u not in children:
                            obj=ins
                        else:
                            pe=[e for e in ts.edges() if e.child==u]
                            y=min(idx[e.parent] for e in pe)
                            obj=ins[:y+1].copy()
                            for e in pe:
                                obj*=scipy.stats.poisson.pmf(mut[e.id],(grid[idx[e.parent]]-grid[:y+1]+eps)*0.3*e.span)
                            if i>y: ok=False
                        if ok and not (obj[i]>=obj.max()*(1-1e-9)): ok=False; ex.setdefault("argmax",(n,L,R,ti,counts,space,eps,u,i,obj))
                    res["ok" if ok else "VIOL"]+=1
for k,v in sorted(res.items(), key=str): print(v,k)
for k,v in ex.items(): print(k,v)
