"""Scratch: exhaustive ARG generator (Hudson-style lineages over L loci)."""
import itertools, sys, time
import numpy as np, tskit

def runs(mask, L):
    out=[]; i=0
    while i<L:
        if mask>>i & 1:
            j=i
            while j<L and mask>>j & 1: j+=1
            out.append((i,j)); i=j
        else: i+=1
    return out

def enumerate_args(n, L, R, allow_mm=True):
    """yield (num_nodes, edges[(l,r,p,c)]) for every complete event history"""
    full=(1<<L)-1
    results=[]
    def rec(lineages, nnodes, edges, rleft, last_new, hist):
        # remove loci fully coalesced
        cnt=[0]*L
        for (_,m) in lineages:
            for l in range(L):
                if m>>l&1: cnt[l]+=1
        dead=0
        for l in range(L):
            if cnt[l]==1: dead|=1<<l
        if dead:
            lineages=tuple((u,m&~dead) for (u,m) in lineages)
            lineages=tuple((u,m) for (u,m) in lineages if m)
        if not lineages:
            results.append((nnodes, tuple(edges), tuple(hist))); return
        k=len(lineages)
        # coalescences
        for i in range(k):
            for j in range(i+1,k):
                (ui,mi),(uj,mj)=lineages[i],lineages[j]
                if ui==uj: continue  # two halves of same node recoalescing: skip (would create diamond w/ same child twice)
                u=nnodes
                e=list(edges)
                for (a,b) in runs(mi,L): e.append((a,b,u,ui))
                for (a,b) in runs(mj,L): e.append((a,b,u,uj))
                rest=tuple(x for t,x in enumerate(lineages) if t not in (i,j))
                rec(rest+((u,mi|mj),), nnodes+1, e, rleft, u, hist+[("CA",i,j)])
        if allow_mm and last_new is not None:
            # merge another lineage into the last created node
            idx=[t for t,(u,m) in enumerate(lineages) if u==last_new]
            if len(idx)==1:
                t0=idx[0]
                for i in range(k):
                    if i==t0: continue
                    ui,mi=lineages[i]
                    if ui==last_new: continue
                    # child must not already be child of last_new on overlapping loci: fine since lineages disjoint in material per node? (same node split by RE has disjoint masks)
                    e=list(edges)
                    for (a,b) in runs(mi,L): e.append((a,b,last_new,ui))
                    rest=tuple(x for t,x in enumerate(lineages) if t not in (i,t0))
                    rec(rest+((last_new,lineages[t0][1]|mi),), nnodes, e, rleft, last_new, hist+[("MM",i)])
        if rleft>0:
            for i in range(k):
                u,m=lineages[i]
                for b in range(1,L):
                    lo=m & ((1<<b)-1); hi=m & ~((1<<b)-1)
                    if lo and hi:
                        rest=tuple(x for t,x in enumerate(lineages) if t!=i)
                        rec(rest+((u,lo),(u,hi)), nnodes, edges, rleft-1, None, hist+[("RE",i,b)])
    rec(tuple((i,full) for i in range(n)), n, [], R, None, [])
    return results

def to_ts(n, L, nnodes, edges, simplify=True):
    t=tskit.TableCollection(sequence_length=L)
    for i in range(n): t.nodes.add_row(flags=1,time=0)
    for i in range(n,nnodes): t.nodes.add_row(flags=0,time=i-n+1)
    for (a,b,p,c) in edges: t.edges.add_row(a,b,p,c)
    t.sort()
    t.edges.squash()
    t.sort()
    if simplify: t.simplify()
    return t.tree_sequence()

def canon(ts):
    # canonical key up to sample permutation: nodes ordered by time already (simplify keeps order?)
    best=None
    n=ts.num_samples
    E=[(e.left,e.right,e.parent,e.child) for e in ts.edges()]
    for perm in itertools.permutations(range(n)):
        key=tuple(sorted((l,r,p,(perm[c] if c<n else c)) for (l,r,p,c) in E))
        if best is None or key<best: best=key
    return (ts.num_nodes,best)

if __name__=="__main__":
    for n in (2,3,4):
        for L in (1,2,3):
            for R in (0,1,2):
                if L==1 and R>0: continue
                if R>=L+1: continue
                t0=time.time()
                res=enumerate_args(n,L,R)
                seen={}
                for nn,ed,h in res:
                    ts=to_ts(n,L,nn,ed)
                    k=canon(ts)
                    seen.setdefault(k,ts)
                mt=sum(1 for ts in seen.values() if ts.num_trees>1)
                print(f"n={n} L={L} R<={R}: histories={len(res)} distinct={len(seen)} multitree={mt} t={time.time()-t0:.1f}s", flush=True)
