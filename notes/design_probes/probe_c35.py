import numpy as np, sys, itertools, collections, warnings, logging
import tsdate
from lib import *
logging.disable(logging.CRITICAL)
res=collections.Counter(); ex={}
for (n,L,R) in [(2,2,1),(3,2,1),(4,2,1),(3,3,2)]:
    U=universe(n,L,R)
    for ti,ts in enumerate(U):
        E=ts.num_edges
        pats=[tuple(1 for _ in range(E)), tuple((i%3) for i in range(E)), tuple(5 if i==0 else 0 for i in range(E)), tuple(1 if i==E-1 else 0 for i in range(E))]
        for counts in pats:
            ts2=add_muts(ts,counts)
            for scale in (1,1e-6,1e8):
              ts3=scale_times(ts2,scale)
              for m,kw in [("variational_gamma",{}),("variational_gamma",dict(rescaling_intervals=2)),("variational_gamma",dict(match_segregating_sites=True)),("inside_outside",dict(population_size=10*scale)),("maximization",dict(population_size=10*scale))]:
                try:
                    with warnings.catch_warnings():
                        warnings.simplefilter("ignore")
                        d=tsdate.date(ts3,mutation_rate=0.1/scale,method=m,min_branch_length=1e-8,**kw)
                    ok=np.all(d.nodes_time[d.edges_parent]>d.nodes_time[d.edges_child])
                    res[(m,str(kw)[:30],scale,"ok" if ok else "INVALID")]+=1
                except BaseException as e:
                    k=(m,str(kw)[:30],scale,type(e).__name__,str(e)[:60])
                    res[k]+=1; ex.setdefault(k,(n,L,R,ti,counts))
for k,v in sorted(res.items(), key=str): print(v,k, ex.get(k,""))
