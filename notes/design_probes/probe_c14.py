from fractions import Fraction as F
from math import comb
import numpy as np, itertools, collections
from tsdate import prior
def closed(n,k):
    if k==n:
        m=sum(F(2,j*(j-1)) for j in range(2,n+1)); v=sum(F(2,j*(j-1))**2 for j in range(2,n+1)); return m,v
    w={a:F(comb(n-k-1,a-2),comb(n-1,a)) for a in range(2,n-k+2)}
    Z=sum(w.values())
    m1=m2=0
    for a,p in w.items():
        mean=sum(F(2,j*(j-1)) for j in range(a+1,n+1)); var=sum(F(2,j*(j-1))**2 for j in range(a+1,n+1))
        m1+=p/Z*mean; m2+=p/Z*(var+mean**2)
    return m1, m2-m1**2
# partition chain: expected number of clades of size k created at transition to a lineages
def chain(n):
    from functools import lru_cache
    start=tuple([1]*n)
    dist={start:F(1)}
    cnt=collections.defaultdict(F)  # (k,a) -> expected count
    for a in range(n-1,0,-1):  # after merge there are a lineages
        new=collections.defaultdict(F)
        for part,p in dist.items():
            m=len(part); pairs=m*(m-1)//2
            for i in range(m):
                for j in range(i+1,m):
                    k=part[i]+part[j]
                    q=tuple(sorted(part[:i]+part[i+1:j]+part[j+1:]+(k,)))
                    new[q]+=p*F(1,pairs); cnt[(k,a)]+=p*F(1,pairs)
        dist=new
    return cnt
worst=0
for n in range(2,9):
    cnt=chain(n)
    for k in range(2,n+1):
        Z=sum(cnt[(k,a)] for a in range(1,n))
        m1=m2=0
        for a in range(1,n):
            p=cnt[(k,a)]/Z
            if p==0: continue
            mean=sum(F(2,j*(j-1)) for j in range(a+1,n+1)); var=sum(F(2,j*(j-1))**2 for j in range(a+1,n+1))
            m1+=p*mean; m2+=p*(var+mean**2)
        cm,cv=closed(n,k)
        assert cm==m1 and cv==m2-m1**2,(n,k,cm,m1)
    c=prior.ConditionalCoalescentTimes(None,"gamma"); c.add(n)
    for k in range(2,n+1):
        cm,cv=closed(n,k)
        row=c[n][k]
        worst=max(worst,abs(row[2]-float(cm))/float(cm),abs(row[3]-float(cv))/float(cv))
print("chain==closed for n<=8; tsdate vs closed worst rel err",worst)
for n in (50,200):
    c=prior.ConditionalCoalescentTimes(None,"gamma"); c.add(n); w=0
    for k in range(2,n+1):
        cm,cv=closed(n,k); row=c[n][k]
        w=max(w,abs(row[2]-float(cm))/float(cm),abs(row[3]-float(cv))/float(cv))
    print(n,w)
