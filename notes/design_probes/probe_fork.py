import time, os, io, multiprocessing as mp, numpy as np
t=time.time()
import tsdate
from lib import *
print("import",time.time()-t)
U=universe(3,2,1)
inputs=[add_muts(ts,tuple(1 for _ in range(ts.num_edges))) for ts in U]
def work(i):
    try:
        d=tsdate.date(inputs[i],mutation_rate=0.1,rescaling_intervals=0)
        return (i,float(d.nodes_time.sum()),os.getpid())
    except BaseException as e: return (i,type(e).__name__,os.getpid())
if __name__=="__main__":
    ctx=mp.get_context("fork")
    t=time.time()
    with ctx.Pool(16) as p:
        r=p.map(work,list(range(len(inputs)))*20,chunksize=4)
    print(len(r),len({x[2] for x in r}),time.time()-t)
    ser=[work(i) for i in range(len(inputs))]
    print(all(a[1]==b[1] for a,b in zip(ser,r[:len(inputs)])))
# FileIO subclass
log=[]
class IFIO(io.FileIO):
    def write(self,b):
        log.append(("write",len(b))); return super().write(b)
    def readinto(self,b):
        n=super().readinto(b); log.append(("readinto",n)); return n
    def close(self):
        if not self.closed: log.append(("close",))
        return super().close()
def myopen(path,mode="r",buffering=-1,encoding=None,**kw):
    raw=IFIO(path,mode.replace("t",""))
    if "w" in mode: buf=io.BufferedWriter(raw,buffer_size=16)
    else: buf=io.BufferedReader(raw,buffer_size=16)
    return io.TextIOWrapper(buf,encoding=encoding or "utf8",write_through=False)
import builtins
orig=builtins.open
np.lib._datasource._file_openers._load()
np.lib._datasource._file_openers._file_openers[None]=myopen
builtins.open=myopen
np.savetxt("/tmp/scratch/z.txt",np.arange(6.).reshape(3,2))
a=np.genfromtxt("/tmp/scratch/z.txt")
builtins.open=orig
print(a.shape, log[:8], len(log))
