import numpy as np, itertools, mpmath as mp, collections
from tsdate import approx
mp.mp.dps=30
def ref_moments(a_i,b_i,a_j,b_j,y,mu):
    # density ∝ (ti-tj)^y e^{-mu(ti-tj)} ti^{a_i-1} e^{-b_i ti} tj^{a_j-1} e^{-b_j tj}, ti>tj>0 ; tj = s ti
    A=a_i+a_j+y; B=b_i+mu; C=b_j-mu
    def I(p,q):  # E-weight of ti^p tj^q (unnormalised)
        f=lambda s: s**(a_j-1+q)*(1-s)**y*(B+s*C)**(-(A+p+q))
        return mp.gamma(A+p+q)*mp.quad(f,mp.linspace(0,1,129))
    Z=I(0,0)
    return float(I(1,0)/Z), float(I(2,0)/Z-(I(1,0)/Z)**2), float(I(0,1)/Z), float(I(0,2)/Z-(I(0,1)/Z)**2)
worst=collections.defaultdict(float); bad=[]
sh=(0.3,1,2.5,30,300); ra=(1e-3,1,40)
cnt=0;nan=0
for a_i,b_i,a_j,b_j in itertools.product(sh,ra,sh,ra):
    for y in (0,1,5,100):
        for mu in (1e-3,1,50):
            if b_j-mu+b_i+mu<=0: continue
            cnt+=1
            out=approx.moments(float(a_i),float(b_i),float(a_j),float(b_j),float(y),float(mu))
            if np.isnan(out[1]): nan+=1; continue
            try: r=ref_moments(a_i,b_i,a_j,b_j,y,mu)
            except Exception as e: continue
            e_i=abs(out[1]-r[0])/r[0]; e_j=abs(out[3]-r[2])/r[2]
            e=max(e_i,e_j)
            key="a_min<1" if min(a_i,a_j)<1 else "a>=1"
            worst[key]=max(worst[key],e)
            if e>0.05: bad.append((a_i,b_i,a_j,b_j,y,mu,e_i,e_j))
print(cnt,nan,dict(worst),len(bad)); print(bad[:10])
bad.sort(key=lambda x:-max(x[6],x[7]))
print(bad[:8])
