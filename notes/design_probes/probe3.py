import os, sys, tempfile
os.environ["XDG_CACHE_HOME"] = tempfile.mkdtemp(prefix="xdg")
import numpy as np
import tsdate
from tsdate import cli, prior
p = cli.tsdate_cli_parser()
a = p.parse_args(["preprocess","in","out","--erase-flanks","False","--split-disjoint","False"])
print(a.erase_flanks, a.split_disjoint)
# cache
from tsdate.prior import ConditionalCoalescentTimes as C
fn = C.get_precalc_cache(10); print(fn)
c = C(10); ref = c.approx_priors.copy()
data = open(fn,'rb').read(); print(len(data))
bad_silent=0; raised=0; ok=0
import warnings
for cut in range(len(data)+1):
    open(fn,'wb').write(data[:cut])
    try:
        with warnings.catch_warnings():
            warnings.simplefilter("ignore")
            c2 = C(10)
        if c2.approx_priors.shape==ref.shape and np.array_equal(c2.approx_priors, ref): ok+=1
        else: bad_silent+=1
    except Exception as e:
        raised+=1; last=(type(e).__name__, str(e)[:80])
print("ok",ok,"silent-bad",bad_silent,"raised",raised,last)
