import numpy as np, itertools, tskit, tsdate, logging, collections, warnings, json
from lib import *
logging.disable(logging.CRITICAL)
res=collections.Counter(); ex={}; worst=collections.defaultdict(float)
def md(ts):
    mn=np.array([n.metadata.get("mn",np.nan) if isinstance(n.metadata,dict) else np.nan for n in ts.nodes()])
    vr=np.array([n.metadata.get("vr",np.nan) if isinstance(n.metadata,dict) else np.nan for n in ts.nodes()])
    return mn,vr
def scale_coords(ts,c):
    t=ts.dump_tables(); t.sequence_length=t.sequence_length*c
    t.edges.left=t.edges.left*c; t.edges.right=t.edges.right*c; t.sites.position=t.sites.position*c
    return t.tree_sequence()
for (n,L,R) in [(3,2,1),(4,2,1)]:
    for ti,ts0 in enumerate(universe(n,L,R)):
        E=ts0.num_edges
        for counts in [tuple(1+(i%3) for i in range(E)), tuple(2 for i in range(E))]:
            ts=add_muts(ts0,counts)
            for m,kw in [("variational_gamma",{}),("variational_gamma",dict(rescaling_intervals=3)),("inside_outside",dict(population_size=10.,eps=1e-6)),("maximization",dict(population_size=10.,eps=1e-6))]:
                try: d0=tsdate.date(ts,mutation_rate=0.1,method=m,min_branch_length=1e-3,**kw)
                except BaseException as e: res[("base EXC",m,type(e).__name__)]+=1; continue
                mn0,vr0=md(d0)
                for c in (2.0**-20, 2.0**30, 3.0, 1e5/7):
                    kw2=dict(kw)
                    if "population_size" in kw2: kw2["population_size"]*=c; kw2["eps"]*=c
                    for kind in ("time","coord"):
                        try:
                            if kind=="time": d=tsdate.date(ts,mutation_rate=0.1/c,method=m,min_branch_length=1e-3*c,**kw2); f=c
                            else: d=tsdate.date(scale_coords(ts,c),mutation_rate=0.1/c,method=m,min_branch_length=1e-3,**kw); f=1
                        except BaseException as e: res[(kind,"EXC",m,c,type(e).__name__,str(e)[:40])]+=1; continue
                        mn,vr=md(d)
                        err=np.nanmax(np.abs(d.nodes_time-f*d0.nodes_time)/(f*d0.nodes_time+(d0.nodes_time==0)))
                        if m!="maximization":
                            err=max(err,np.nanmax(np.abs(mn-f*mn0)/(f*mn0+(mn0==0))), np.nanmax(np.abs(vr-f*f*vr0)/(f*f*vr0+(vr0==0))))
                        key=(kind,m,str(kw)[:25],c)
                        worst[key]=max(worst[key],err)
                        if err>1e-6: ex.setdefault(key,(n,L,R,ti,counts,err))
for k,v in sorted(res.items(), key=str): print(v,k)
for k,v in sorted(worst.items(), key=str): print(k,v, ex.get(k,""))
