import numpy as np, itertools, tskit, tsdate, logging, collections, warnings, json
from lib import *
logging.disable(logging.CRITICAL)
res=collections.Counter(); ex={}
def relerr(a,b): return np.nanmax(np.abs(a-b)/(np.abs(b)+(b==0)))
for (n,L,R) in [(3,2,1),(4,2,1)]:
    for ti,ts0 in enumerate(universe(n,L,R)):
        E=ts0.num_edges
        for counts in [tuple(1+(i%3) for i in range(E)), tuple(2 for i in range(E)), tuple(1 for i in range(E))]:
            ts=add_muts(ts0,counts)
            for kw in [{},dict(rescaling_intervals=3)]:
                try: d0=tsdate.date(ts,mutation_rate=0.1,min_branch_length=1e-3,**kw)
                except BaseException as e: res["base EXC"]+=1; continue
                stable=True
                for p in (1+2.0**-30, 1-2.0**-30, 1+2.0**-20):
                    try:
                        dp=tsdate.date(ts,mutation_rate=0.1*p,min_branch_length=1e-3,**kw)
                        if relerr(dp.nodes_time*p, d0.nodes_time)>1e-5: stable=False
                    except BaseException: stable=False
                for c in (3.0, 1e5/7, 0.37, 1e-7*3):
                    try: d=tsdate.date(ts,mutation_rate=0.1/c,min_branch_length=1e-3*c,**kw)
                    except BaseException as e: res[("EXC",c)]+=1; continue
                    err=relerr(d.nodes_time, c*d0.nodes_time)
                    k=("stable" if stable else "unstable", "agree" if err<1e-6 else "DISAGREE")
                    res[k]+=1
                    if k==("stable","DISAGREE"): ex.setdefault(k,(n,L,R,ti,counts,kw,c,err))
for k,v in sorted(res.items(), key=str): print(v,k, ex.get(k,""))
