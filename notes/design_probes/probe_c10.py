import itertools, numpy as np, tskit, scipy.stats, sys
import tsdate
from tsdate import prior as tprior
from gen import enumerate_args, to_ts, canon

def add_muts(ts, counts):
    t=ts.dump_tables()
    for e,c in zip(ts.edges(), counts):
        for k in range(c):
            pos = e.left + (e.right-e.left)*(k+1)/(c+1)*0.999
            # unique site positions: offset by edge id
            pos = e.left + (e.right-e.left)*((k+1)/(c+2) + 0.0001*(e.id+1))
            s=t.sites.add_row(pos,"A")
            t.mutations.add_row(s,e.child,derived_state="T")
    t.sort(); t.build_index(); t.compute_mutation_parents()
    return t.tree_sequence()

def brute(ts, pri, mu, eps):
    tp = pri.timepoints; K=len(tp)
    nonfixed = [u for u in range(ts.num_nodes) if not ts.node(u).is_sample()]
    mut = np.zeros(ts.num_edges,int)
    for m in ts.mutations():
        if m.edge>=0: mut[m.edge]+=1
    Z=0.0; marg={u:np.zeros(K) for u in nonfixed}
    for assign in itertools.product(range(K), repeat=len(nonfixed)):
        idx=dict(zip(nonfixed,assign))
        w=1.0
        for u in nonfixed: w*=pri[u][idx[u]]
        if w==0: continue
        for e in ts.edges():
            tpar=tp[idx[e.parent]]
            if e.child in idx:
                if idx[e.child]>idx[e.parent]: w=0;break
                tc=tp[idx[e.child]]
            else: tc=tp[0]
            w*=scipy.stats.poisson.pmf(mut[e.id], (tpar-tc+eps)*mu*e.span)
        if w==0: continue
        Z+=w
        for u in nonfixed: marg[u][idx[u]]+=w
    return Z,{u:marg[u]/Z for u in nonfixed}

mu=1e-3; eps=1e-6
worst=0
for n in (2,3,4):
    res=enumerate_args(n,1,0)
    seen={}
    for nn,ed,h in res:
        ts=to_ts(n,1,nn,ed); seen.setdefault(canon(ts),ts)
    for ts in seen.values():
        E=ts.num_edges
        for counts in itertools.product((0,1,3),repeat=E):
            if sum(counts)==0: continue
            ts2=add_muts(ts,counts)
            for space in ("linear","logarithmic"):
                pri=tsdate.build_prior_grid(ts2, population_size=100, timepoints=np.array([0,10,50.,200,1000]))
                Z,marg=brute(ts2,pri,mu,eps)
                d,fit,lik=tsdate.inside_outside(ts2,mutation_rate=mu,priors=pri,eps=eps,probability_space=space,return_fit=True,return_likelihood=True)
                post=fit.posterior_grid
                for u in marg:
                    err=np.max(np.abs(post[u]-marg[u])); worst=max(worst,err)
                    if err>1e-9: print("MISMATCH",n,counts,space,u,post[u],marg[u]); sys.exit()
                l = lik if space=="linear" else np.exp(lik)
                if abs(l-Z)/Z>1e-9: print("LIK mismatch",n,counts,space,l,Z); sys.exit()
    print(n,len(seen),"worst",worst)
