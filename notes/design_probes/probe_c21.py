import numpy as np, sys, itertools
import tsdate
from tsdate import variational
from lib import *
bad=0; tot=0
for (n,L,R) in [(3,2,1),(4,2,1)]:
    for ts in universe(n,L,R):
        E=ts.num_edges
        pats=[tuple(1 for _ in range(E)), tuple((i%3) for i in range(E)), tuple(5 if i==0 else 0 for i in range(E))]
        for counts in pats:
            ts2=add_muts(ts,counts)
            for ms in (1000,3):
              for reg in (True,False):
                fit=variational.ExpectationPropagation(ts2,mutation_rate=0.1)
                for it in range(6):
                    fit.iterate(max_shape=ms,regularise=reg)
                    post=variational._assemble_factors(fit.factors)
                    tot+=1
                    free=fit.node_constraints[:,0]!=fit.node_constraints[:,1]
                    if not np.allclose(post[free],fit.node_posterior[free],rtol=1e-8,atol=1e-12) or not np.all(fit.factors.scale==1):
                        bad+=1
                        if bad<5: print("BAD",n,L,R,counts,ms,reg,it,post,fit.node_posterior)
                    # fixed nodes
                    if not np.all(fit.node_posterior[~free]==0): print("fixed nonzero", fit.node_posterior[~free]); 
print(tot,bad)
