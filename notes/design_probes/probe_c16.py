import numpy as np, itertools, tskit, tsdate, logging
from lib import *
logging.disable(logging.CRITICAL)
ts=universe(3,1,0)[0]
bad=0;tot=0
grids=[np.array([0,10,50.,200,1000]), np.array([0,1,2,3.]), np.array([0,0.1,0.7,3.3,1e3/3]), np.array([0, 1e-3, 1/3, 7/3, 1e5/7])]
for N in [1,3,10,100,1e4,1234.5, 0.5]:
    for g in grids:
        p=tsdate.build_prior_grid(ts,population_size=N,timepoints=g)
        tot+=1
        if not np.array_equal(p.timepoints,g): bad+=1; print(N,g,p.timepoints-g)
    p=tsdate.build_prior_grid(ts,population_size=tsdate.demography.PopulationSizeHistory([N,2*N,N/3],[1.5,40]),timepoints=grids[0])
    if not np.array_equal(p.timepoints,grids[0]): print("hist",N,p.timepoints-grids[0])
print(tot,bad)
# nonzero start
try:
    p=tsdate.build_prior_grid(ts,population_size=10,timepoints=np.array([1.,2,3])); print(p.timepoints, p[3])
except Exception as e: print(type(e),e)
for n in (2,3,5):
  for K in (2,3,5,20):
    for d in ("lognorm","gamma"):
        ts=universe(n,1,0)[0] if n<5 else None
        if ts is None: continue
        p=tsdate.build_prior_grid(ts,population_size=10,timepoints=K,prior_distribution=d)
        print(n,K,d,len(p.timepoints),np.all(np.diff(p.timepoints)>0),p.timepoints[0])
