import os, sys, time, traceback
import numpy as np, tskit, msprime
import tsdate
from tsdate import rescaling, util, prior, discrete, variational, phasing

ts = msprime.sim_ancestry(4, sequence_length=1e4, recombination_rate=1e-8, population_size=1e4, random_seed=1)
ts = msprime.sim_mutations(ts, rate=1e-7, random_seed=1)

print("--- count_mutations custom sample set")
try:
    nis = np.zeros(ts.num_nodes, dtype=bool); nis[[0,1,2]] = True
    print(rescaling.count_mutations(ts, node_is_sample=nis, size_biased=True)[0][:3])
except BaseException as e:
    print(type(e).__name__, e)

print("--- rescale_tree_sequence")
try:
    r = rescaling.rescale_tree_sequence(ts, 1e-7)
    print(r.num_nodes)
except BaseException as e:
    print(type(e).__name__, str(e)[:300])

print("--- large times")
for scale in [1e-6, 1, 1e6, 2e8, 1e10, 1e12]:
    mu = 1e-7/scale
    for m in ["variational_gamma","inside_outside","maximization"]:
        kw = {} if m=="variational_gamma" else dict(population_size=1e4*scale)
        try:
            d = tsdate.date(ts, mutation_rate=mu, method=m, **kw)
            ok = np.all(d.nodes_time[d.edges_parent] > d.nodes_time[d.edges_child])
            print(scale, m, "ok", ok, d.nodes_time.max())
        except BaseException as e:
            print(scale, m, type(e).__name__, str(e)[:200])
