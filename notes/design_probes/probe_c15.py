import numpy as np, itertools, tskit, tsdate, logging, collections
from tsdate import prior
from lib import *
logging.disable(logging.CRITICAL)
def isolate(ts, s, loci):
    t=ts.dump_tables()
    edges=t.edges.copy(); t.edges.clear()
    for e in edges:
        if e.child==s:
            # split edge into unit loci, drop those in loci
            for l in range(int(e.left),int(e.right)):
                if l not in loci: t.edges.add_row(l,l+1,e.parent,e.child)
        else: t.edges.append(e)
    t.sort(); t.edges.squash(); t.sort()
    t.simplify()
    return t.tree_sequence()
def direct(ts):
    out=collections.defaultdict(lambda: collections.defaultdict(float))
    tot=collections.defaultdict(float)
    for tree in ts.trees(root_threshold=2):
        # total samples in tree = samples connected (with a parent) 
        T=sum(1 for s in ts.samples() if tree.parent(s)!=-1)
        for u in tree.nodes():
            if ts.node(u).is_sample(): continue
            if tree.num_children(u)<2: continue
            k=sum(1 for s in tree.samples(u))
            out[u][(T,k)]+=tree.span; tot[u]+=tree.span
    return out,tot
res=collections.Counter(); ex={}
for (n,L,R) in [(3,2,1),(4,2,1),(3,3,2),(4,3,1)]:
    for ti,ts0 in enumerate(universe(n,L,R)):
        variants=[ts0]
        for s in range(n):
            for loci in [(0,),(L-1,)]:
                if L>1: variants.append(isolate(ts0,s,set(loci)))
        for vi,ts in enumerate(variants):
            try:
                sp=prior.SpansBySamples(ts)
            except BaseException as e:
                res[("EXC",type(e).__name__,str(e)[:50])]+=1; ex.setdefault(("EXC",type(e).__name__,str(e)[:50]),(n,L,R,ti,vi)); continue
            ref,tot=direct(ts)
            ok=True
            for u in range(ts.num_nodes):
                if ts.node(u).is_sample(): continue
                got={}
                for T,arr in sp.get_spans(u).items():
                    for k,v in zip(arr["descendant_tips"],arr["span"]): got[(int(T),int(k))]=got.get((int(T),int(k)),0)+v
                r={k:v for k,v in ref[u].items()}
                if set(got)!=set(r) or any(abs(got[k]-r[k])>1e-12 for k in r) or abs(sum(got.values())-sp.node_spans[u])>1e-12:
                    ok=False; ex.setdefault("VIOL",(n,L,R,ti,vi,u,got,r))
            res["ok" if ok else "VIOL"]+=1
for k,v in sorted(res.items(), key=str): print(v,k, ex.get(k,""))
