import numpy as np, sys, itertools, collections, warnings, logging
import tsdate, tskit
from lib import *
logging.disable(logging.CRITICAL)
res=collections.Counter(); ex={}
def add_inds(ts):
    t=ts.dump_tables()
    ind=t.nodes.individual.copy()
    for i in range(ts.num_samples//2):
        j=t.individuals.add_row()
        ind[2*i]=j; ind[2*i+1]=j
    t.nodes.individual=ind
    return t.tree_sequence()
def rephase(ts, flips):
    # flips: bool per singleton mutation (mutation on sample node with individual)
    t=ts.dump_tables()
    node=t.mutations.node.copy()
    k=0
    for m in ts.mutations():
        nd=ts.node(m.node)
        if nd.is_sample() and nd.individual>=0:
            if flips[k]:
                a,b=ts.individual(nd.individual).nodes
                node[m.id]= b if m.node==a else a
            k+=1
    t.mutations.node=node
    t.sort(); t.build_index(); t.compute_mutation_parents()
    return t.tree_sequence()
worst=0
for (n,L,R) in [(2,2,1),(4,1,0),(4,2,1)]:
    U=universe(n,L,R)
    for ti,ts in enumerate(U):
        ts=add_inds(ts)
        E=ts.num_edges
        pats=[tuple(1 for _ in range(E)), tuple(((i+1)%3) for i in range(E)), tuple(2 if ts.edge(i).child<n else 1 for i in range(E))]
        for counts in pats:
            ts2=add_muts(ts,counts)
            ns=sum(1 for m in ts2.mutations() if ts2.node(m.node).is_sample())
            base=None
            for flips in itertools.islice(itertools.product((0,1),repeat=ns), 16):
                ts3=rephase(ts2,flips)
                try:
                    d,fit=tsdate.date(ts3,mutation_rate=0.1,rescaling_intervals=0,singletons_phased=False,return_fit=True)
                except BaseException as e:
                    res[("EXC",type(e).__name__,str(e)[:60])]+=1; ex.setdefault(("EXC",type(e).__name__,str(e)[:60]),(n,L,R,ti,counts,flips)); continue
                # mutation nodes only differ on individuals' nodes, to the other node
                for m_in,m_out in zip(ts3.mutations(),d.mutations()):
                    assert m_in.site==m_out.site
                # NB mutation order may change after sort... compare by site since 1 mut/site
                out_by_site={m.site:m.node for m in d.mutations()}
                for m in ts3.mutations():
                    o=out_by_site[m.site]
                    if o!=m.node:
                        nd=ts3.node(m.node)
                        assert nd.individual>=0 and o in ts3.individual(nd.individual).nodes, "bad move"
                        res["moved"]+=1
                key=(d.nodes_time.copy(), tuple(sorted(out_by_site.items())))
                if base is None: base=key
                else:
                    err=np.max(np.abs(key[0]-base[0])/(base[0]+1e-300+ (base[0]==0)))
                    worst=max(worst,err)
                    if err>1e-6 or key[1]!=base[1]:
                        res["DIFF"]+=1; ex.setdefault("DIFF",(n,L,R,ti,counts,flips,err,key[1]!=base[1]))
                    else: res["same"]+=1
for k,v in sorted(res.items(), key=str): print(v,k, ex.get(k,""))
print("worst",worst)
