import numpy as np, itertools, tskit, tsdate, logging, collections
from tsdate import util, variational, rescaling
from lib import *
logging.disable(logging.CRITICAL)
res=collections.Counter(); ex={}
for (n,L,R) in [(3,2,1),(4,2,1)]:
    for ti,ts in enumerate(universe(n,L,R)):
        N=ts.num_nodes; internal=[u for u in range(N) if not ts.node(u).is_sample()]
        if len(internal)>4: continue
        order=list(range(ts.num_edges))
        for vals in itertools.product((0.5,1.0,2.0,3.0),repeat=len(internal)):
            t=np.zeros(N); t[internal]=vals
            for eps in (1e-8,0.5,1.0):
                out=util.constrain_ages(ts,t,eps,0)
                exp=t.copy()
                for e in ts.edges():  # edge order = parent time asc: children first
                    pass
                # children-first evaluation via topological order by input time
                for u in sorted(range(N),key=lambda u:ts.nodes_time[u]):
                    ch=[e.child for e in ts.edges() if e.parent==u]
                    if ch: exp[u]=max(t[u],max(exp[c]+eps for c in set(ch)))
                k="ok" if np.array_equal(out,exp) else "VIOL"
                res[("min",k)]+=1
                if k=="VIOL": ex.setdefault("min",(n,L,R,ti,vals,eps,out,exp))
                for it in (1,3,100):
                    o2=util.constrain_ages(ts,out,eps,it)
                    res[("idem",it,bool(np.array_equal(o2,out)))]+=1
                    if not np.array_equal(o2,out): ex.setdefault(("idem",it),(n,L,R,ti,vals,eps,out,o2))
                    strict=np.all(t[ts.edges_parent]-t[ts.edges_child]>eps)
                    if strict:
                        o3=util.constrain_ages(ts,t,eps,it); res[("strict-unchanged",bool(np.array_equal(o3,t)))]+=1
for k,v in sorted(res.items(), key=str): print(v,k)
for k,v in ex.items(): print(k,v)
