#!/bin/bash
# offline setup: build the ARG universes (independent of /repo) and warm the numba cache
cd "$(dirname "$0")"
export PYTHONPATH=/verif PYTHONDONTWRITEBYTECODE=1 PYTHONHASHSEED=0
mkdir -p build evidence replays
/venv/bin/python -m mc.tsspace 2,1,0 3,1,0 4,1,0 5,1,0 6,1,0 2,3,2 3,2,1 3,3,1 4,2,1 3,3,2 4,3,1 4,2,2 5,2,1 4,3,2 || exit 1
/venv/bin/python - <<'P' || exit 1
from mc import env
import shutil; s = env.setup()
print("tsdate import + numba cache warm-up: %.1fs" % env.import_tsdate()); shutil.rmtree(s, ignore_errors=True)
P
echo setup done
