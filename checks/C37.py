"""C37 Standalone tree-sequence rescaling works."""

import itertools

import numpy as np
import tskit

from mc import dating, tsspace
from mc.common import call, classify_exc, exc_text

PROPERTY = "C37"
LEVEL = "model_checking"
RULE = (
    "one evaluation = one rescaling.rescale_tree_sequence call on (bounded ARG incl. both node numberings, mutation pattern incl. "
    "above-root mutations, time scale of the input, num_intervals {1,2,100}, num_iterations {1,10}, match_segregating_sites). the "
    "statement requires a result for every simplified contemporary input, so a call that raises is a violation. oracle on the result: "
    "tables re-validate; edge set, sites, mutation site/node/state unchanged; sample times unchanged; every parent strictly older than its "
    "child is NOT required but the map of non-sample times must be non-decreasing (t_in[u] < t_in[v] => t_out[u] <= t_out[v], ties map to "
    "ties); each mutation time == midpoint of its branch (node time above a root). non-trivial = multi-tree input or >=2 intervals; distinct = all"
)
ASSUMPTIONS = ["small-scope ARGs", "inputs simplified with all samples at time 0"]


def warmup():
    dating.warmup_all()


def cases(tier, seed):
    sp = tsspace.space(tier, renumber=("reverse",))
    out = []
    for a in sp.args:
        E = tsspace.arg_ts(a).num_edges
        pats = tsspace.mutation_patterns(E, "Ms" if tier == "quick" else "Mp")
        for pn, pat in pats:
            for sc in (("1", "1e4") if "renumber" not in a or tier != "quick" else ("1",)):
                out.append({"arg": a, "mut": pat, "scale": sc, "above_root": int(pn == "mod3")})
    return {"cases": out, "states": sp.states, "transitions": sp.transitions, "bound": f"{sp.describe()} (2 numberings) x mutation menu x input time scale {{1,1e4}} x intervals {{1,2,100}} x iterations {{1,10}} x segsites", "exhaustive": True}


def run(case):
    from tsdate import rescaling

    ts, s = dating.build_input(case)
    viol, tags, keys = [], {}, []
    evals = 0
    cid = f"{case['arg']['id']}|{case['mut']}|{case['scale']}"
    # independent precondition of known finding F2: some epoch between consecutive distinct node times is crossed only by
    # edges that carry no mutation
    from mc.common import edge_mut_counts

    mcount = edge_mut_counts(ts)
    brk = np.unique(ts.nodes_time)
    zero_epoch = False
    for lo, hi in zip(brk[:-1], brk[1:]):
        if not any(mcount[e.id] > 0 for e in ts.edges() if ts.nodes_time[e.child] <= lo and ts.nodes_time[e.parent] >= hi):
            zero_epoch = True
    for ni, it, seg in itertools.product((1, 2, 100), (1, 10), (False, True)):
        evals += 1
        sub = {"num_intervals": ni, "num_iterations": it, "match_segregating_sites": seg}
        ok, out = call(rescaling.rescale_tree_sequence, ts, 1.0 / s, num_intervals=ni, num_iterations=it, match_segregating_sites=seg)
        if not ok:
            msg = str(out)
            viol.append({"kind": "rescale_tree_sequence_raises", "msg": exc_text(out, 300), "facts": {"exc": type(out).__name__, "fewer_intervals_assert": "Use fewer rescaling intervals" in msg, "zero_span_assert": "Zero edge span" in msg, "num_intervals_gt_1": ni > 1, "some_epoch_without_mutations": zero_epoch}, "sub": sub})
            continue

        def bad(kind, msg):
            viol.append({"kind": kind, "msg": msg, "facts": {}, "sub": sub})

        try:
            out.dump_tables().tree_sequence()
        except Exception as e:  # noqa: BLE001
            bad("invalid_output", exc_text(e))
            continue
        a, b = ts.dump_tables(), out.dump_tables()
        ea = sorted((e.left, e.right, e.parent, e.child) for e in a.edges)
        eb = sorted((e.left, e.right, e.parent, e.child) for e in b.edges)
        if ea != eb or not a.sites.equals(b.sites) or a.nodes.num_rows != b.nodes.num_rows or not np.array_equal(a.nodes.flags, b.nodes.flags):
            bad("topology_changed", "")
            continue
        ma = sorted((m.site, m.node, m.derived_state) for m in a.mutations)
        mb = sorted((m.site, m.node, m.derived_state) for m in b.mutations)
        if ma != mb:
            bad("mutations_changed", "")
        smp = list(ts.samples())
        if not np.array_equal(out.nodes_time[smp], ts.nodes_time[smp]):
            bad("sample_times_changed", "")
        ti, to = ts.nodes_time, out.nodes_time
        inner = [u for u in range(ts.num_nodes) if u not in set(smp)]
        for u, v in itertools.combinations(inner, 2):
            if (ti[u] < ti[v] and to[u] > to[v]) or (ti[u] > ti[v] and to[u] < to[v]) or (ti[u] == ti[v] and to[u] != to[v]):
                bad("non_sample_times_not_monotone", f"in {ti[u]!r},{ti[v]!r} out {to[u]!r},{to[v]!r}")
                break
        for m in out.mutations():
            tree = out.at(out.site(m.site).position)
            p = tree.parent(m.node)
            want = to[m.node] if p == tskit.NULL else (to[p] + to[m.node]) / 2
            if not abs(m.time - want) <= 1e-12 * max(1.0, abs(want)):
                bad("mutation_not_at_branch_midpoint", f"mutation {m.id}: {m.time!r} vs {want!r}")
                break
        if ts.num_trees > 1 or ni > 1:
            keys.append(f"{cid}|{sub}")
    return {"evals": evals, "viol": viol, "tags": tags, "keys": keys}
