"""C20 EP is exact in the conjugate (star) case."""

import itertools

import numpy as np
import tskit

from mc.common import call, classify_exc, exc_text

PROPERTY = "C20"
LEVEL = "model_checking"
RULE = (
    "inputs = EVERY star-like tree sequence on n<=4 samples and L<=3 unit loci: per locus every partition of the samples into blocks of "
    "size>=2, each block under its own non-sample parent, parents shared across loci in three ways (by block index, only identical blocks, "
    "never) x mutation menu per edge {ones, i mod 3, one edge 7, one edge 20, single mutation} x mutation_rate {0.5,1e-8,1e3} x "
    "max_iterations {1,2,5,25} x max_shape {2,10,1000}, regularise_roots=False, rescaling off. oracle: parent posterior shape == 1+sum(y), "
    "rate == mu*sum(span); if 1+sum(y) > max_shape both natural parameters scaled by (max_shape-1)/sum(y) (1e-9). one evaluation = one "
    "call; non-trivial = parent with >=2 edges of unequal y/span or a binding cap; distinct = (input, options)"
)
ASSUMPTIONS = ["every edge joins a non-sample parent to a sample at time 0", "small scope"]


def partitions(n):
    """set partitions of range(n) into blocks of size >= 2"""
    def rec(items):
        if not items:
            yield []
            return
        first, rest = items[0], items[1:]
        for k in range(1, len(rest) + 1):
            for comb in itertools.combinations(rest, k):
                block = (first,) + comb
                remaining = [x for x in rest if x not in comb]
                for p in rec(remaining):
                    yield [block] + p
    return list(rec(list(range(n))))


def build(n, parts, share):
    """parts: list over loci of partitions; returns tables with edges parent->sample"""
    L = len(parts)
    t = tskit.TableCollection(sequence_length=L)
    for _ in range(n):
        t.nodes.add_row(flags=tskit.NODE_IS_SAMPLE, time=0)
    parent_of = {}
    nxt = [0]

    def new_parent():
        nxt[0] += 1
        return t.nodes.add_row(flags=0, time=float(nxt[0]))

    for l, part in enumerate(parts):
        for bi, block in enumerate(part):
            if share == "index":
                key = bi
            elif share == "identical":
                key = block
            else:
                key = (l, bi)
            if key not in parent_of:
                parent_of[key] = new_parent()
            for s in block:
                t.edges.add_row(l, l + 1, parent_of[key], s)
    t.sort()
    t.edges.squash()
    t.sort()
    return t


def cases(tier, seed):
    out = []
    seen = set()
    nmax = 4
    for n in range(2, nmax + 1):
        P = partitions(n)
        for L in (1, 2, 3):
            if tier == "quick" and n == 4 and L == 3:
                continue
            for parts in itertools.product(range(len(P)), repeat=L):
                for share in ("index", "identical", "never"):
                    t = build(n, [P[i] for i in parts], share)
                    key = (n, tuple((e.left, e.right, e.parent, e.child) for e in t.edges))
                    if key in seen:
                        continue
                    seen.add(key)
                    out.append({"n": n, "parts": [[list(b) for b in P[i]] for i in parts], "share": share})
    return {"cases": out, "states": len(out), "transitions": len(out), "bound": "n<=4, L<=3 (quick: without n=4,L=3); see rule", "exhaustive": True}


def warmup():
    from mc import dating

    dating.warmup_all()


def run(case):
    import tsdate

    t0 = build(case["n"], [[tuple(b) for b in part] for part in case["parts"]], case["share"])
    ts0 = t0.tree_sequence()
    E = ts0.num_edges
    viol, tags, keys = [], {}, []
    evals = 0
    pats = [("ones", [1] * E), ("mod3", [i % 3 for i in range(E)]), ("seven", [7] + [1] * (E - 1)), ("twenty", [0] * (E - 1) + [20]), ("single", [1] + [0] * (E - 1))]
    for pn, pat in pats:
        t = t0.copy()
        k = 0
        tot = sum(pat) + 1
        for e, c in zip(ts0.edges(), pat):
            for j in range(c):
                k += 1  # unique positions: inside the first unit locus of the edge
                s = t.sites.add_row(int(e.left) + k / tot, "A")
                t.mutations.add_row(s, e.child, derived_state="T")
        t.sort()
        t.build_index()
        t.compute_mutation_parents()
        ts = t.tree_sequence()
        # direct tally per parent
        y = {}
        span = {}
        for m in ts.mutations():
            tree = ts.at(ts.site(m.site).position)
            p = tree.parent(m.node)
            y[p] = y.get(p, 0) + 1
        for e in ts.edges():
            span[e.parent] = span.get(e.parent, 0.0) + (e.right - e.left)
        per_edge = {}
        for e in ts.edges():
            cnt = sum(1 for m in ts.mutations() if m.node == e.child and e.left <= ts.site(m.site).position < e.right)
            per_edge.setdefault(e.parent, []).append(cnt / (e.right - e.left))
        for mu, it, ms in itertools.product((0.5, 1e-8, 1e3), (1, 2, 5, 25), (2.0, 10.0, 1000.0)):
            evals += 1
            ok, res = call(tsdate.variational_gamma, ts, mutation_rate=mu, max_iterations=it, max_shape=ms, rescaling_intervals=0, regularise_roots=False, return_fit=True)
            sub = {"mut": pn, "mu": mu, "max_iterations": it, "max_shape": ms}
            if not ok:
                kk = f"no_return:{classify_exc(res)}"
                tags[kk] = tags.get(kk, 0) + 1
                if classify_exc(res) != "clean":
                    viol.append({"kind": "star_input_crashes", "msg": exc_text(res), "facts": {"exc": type(res).__name__}, "sub": sub})
                continue
            _, fit = res
            post = fit.node_posteriors()
            for p in span:
                mean, var = float(post[p]["mean"]), float(post[p]["variance"])
                shape, rate = mean * mean / var, mean / var
                Y = y.get(p, 0)
                tshape, trate = 1.0 + Y, mu * span[p]
                capped = tshape > ms
                if capped:
                    d = (ms - 1) / Y
                    tshape, trate = ms, trate * d
                prop = len(set(np.round(per_edge[p], 12))) == 1
                if not (abs(shape - tshape) <= 1e-9 * tshape and abs(rate - trate) <= 1e-9 * trate):
                    viol.append(
                        {"kind": "not_the_conjugate_posterior", "msg": f"parent {p}: shape {shape!r} rate {rate!r}, expected {tshape!r} {trate!r}",
                         "facts": {"cap_binds": bool(capped), "edges_proportional": bool(prop), "shape_ok": bool(abs(shape - tshape) <= 1e-9 * tshape)}, "sub": sub}
                    )
                if capped or not prop:
                    keys.append(f"{case['n']}|{case['parts']}|{case['share']}|{sub}|{p}")
    return {"evals": evals, "viol": viol, "tags": tags, "keys": keys}
