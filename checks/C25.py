"""C25 Time rescaling is an order-preserving recalibration."""

import itertools

import numpy as np
import tskit

from mc import dating, tsspace
from mc.common import call, classify_exc, exc_text

PROPERTY = "C25"
LEVEL = "model_checking"
RULE = (
    "inputs = bounded ARGs x mutation menu x H(internal sample) x rescaling_intervals {1,2,3,1000} x rescaling_iterations {1,5} x "
    "match_segregating_sites x max_shape {3,1000}. the harness wraps the module-level names piecewise_scale_posterior and "
    "mutational_timescale used by the real rescale() and captures breakpoints, posteriors before/after and the (times, likelihoods) the "
    "step works with. oracle: breaks start at (0,0) and are strictly increasing; every free node's new mean == the piecewise-linear image "
    "of its old mean (recomputed with an independent interpolation, 1e-9); the map is non-decreasing so no pair of node means is strictly "
    "reversed; new shape <= max_shape; sample nodes keep their times; mutational_area(times, likelihoods) == direct overlap of each edge "
    "with each inter-node epoch (1e-12), also on the complete product of time vectors {0.5,1,2,3}^internal for <=4 internal nodes. "
    "one evaluation = one rescaled call or one mutational_area call; non-trivial = >=2 breakpoints intervals or a vector with ties; distinct = all"
)
ASSUMPTIONS = ["small-scope ARGs", "calls that raise (e.g. 'Use fewer rescaling intervals') are judged by C35"]


def warmup():
    dating.warmup_all()


def cases(tier, seed):
    sp = tsspace.space(tier)
    out = []
    for a in sp.args:
        E = tsspace.arg_ts(a).num_edges
        pats = tsspace.mutation_patterns(E, "Ms" if tier == "quick" else "Mp")
        pats = pats[:2] + pats[3:4] if tier == "quick" else pats
        for pn, pat in pats:
            for H in dating.H_menu(a, "quick", hist=False):
                out.append({"arg": a, "mut": pat, "H": H})
    return {"cases": out, "states": sp.states, "transitions": sp.transitions, "bound": f"{sp.describe()} x mutation menu x H x intervals {{1,2,3,1000}} x iterations {{1,5}} x segsites x max_shape {{3,1000}}", "exhaustive": True}


def area_reference(t, lik, ep, ec):
    breaks = np.unique(t)  # epochs = intervals between consecutive distinct node times
    K = len(breaks) - 1
    counts = np.zeros(K)
    offset = np.zeros(K)
    for e in range(len(ep)):
        p, c = ep[e], ec[e]
        ln = t[p] - t[c]
        if not ln > 0:
            continue
        for k in range(K):
            if breaks[k] >= t[c] and breaks[k + 1] <= t[p]:
                counts[k] += lik[e, 0] / ln
                offset[k] += lik[e, 1]
    return counts, offset, np.diff(breaks)


def run(case):
    import tsdate
    from tsdate import rescaling
    from tsdate import variational as V

    ts, _ = dating.build_input(case)
    viol, tags, keys = [], {}, []
    evals = 0
    cid = f"{case['arg']['id']}|{case['mut']}|{case['H']}"
    fixed = (ts.nodes_flags & tskit.NODE_IS_SAMPLE).astype(bool)
    real_psp, real_mt = V.piecewise_scale_posterior, V.mutational_timescale
    for ri, it, seg, ms in itertools.product((1, 2, 3, 1000), (1, 5), (False, True), (3.0, 1000.0)):
        caps = []
        areas = []

        def spy_psp(post, pfixed, ob, rb, qw, mshape):
            out = real_psp(post, pfixed, ob, rb, qw, mshape)
            caps.append((np.array(post, copy=True), np.array(pfixed, copy=True), np.array(ob, copy=True), np.array(rb, copy=True), mshape, np.array(out, copy=True)))
            return out

        def spy_mt(nodes_time, lik, *a, **k):
            areas.append((np.array(nodes_time, copy=True), np.array(lik, copy=True)))
            return real_mt(nodes_time, lik, *a, **k)

        V.piecewise_scale_posterior, V.mutational_timescale = spy_psp, spy_mt
        try:
            evals += 1
            ok, res = call(tsdate.variational_gamma, ts, mutation_rate=1.0, rescaling_intervals=ri, rescaling_iterations=it, match_segregating_sites=seg, max_shape=ms, return_fit=True)
        finally:
            V.piecewise_scale_posterior, V.mutational_timescale = real_psp, real_mt
        sub = {"rescaling_intervals": ri, "rescaling_iterations": it, "match_segregating_sites": seg, "max_shape": ms}
        if not ok:
            k = f"no_return:{classify_exc(res)}"
            tags[k] = tags.get(k, 0) + 1
            continue

        def bad(kind, msg):
            viol.append({"kind": kind, "msg": msg, "facts": {}, "sub": sub})

        out, fit = res
        if not caps:
            bad("rescale_step_not_observed", "")
            continue
        post, pfixed, ob, rb, mshape, new = caps[0]
        if not (ob[0] == 0 and rb[0] == 0 and np.all(np.diff(ob) > 0) and np.all(np.diff(rb) > 0)):
            bad("breakpoints_not_increasing_from_zero", f"{ob.tolist()} -> {rb.tolist()}")
            continue
        free = ~pfixed
        if not np.array_equal(pfixed, fixed):
            bad("fixed_mask_differs_from_sample_flags", "")
        old_mean = (post[free, 0] + 1) / post[free, 1]
        new_mean = (new[free, 0] + 1) / new[free, 1]
        new_shape = new[free, 0] + 1
        # independent evaluation of the piecewise-linear map (flat beyond the last break, as documented by the zero final slope)
        img = np.interp(old_mean, ob, rb)
        if not np.allclose(new_mean, img, rtol=1e-9, atol=0):
            bad("mean_is_not_the_mapped_mean", f"old {old_mean.tolist()} new {new_mean.tolist()} expected {img.tolist()} breaks {ob.tolist()}->{rb.tolist()}")
        for i, j in itertools.combinations(range(len(old_mean)), 2):
            if (old_mean[i] - old_mean[j]) * (new_mean[i] - new_mean[j]) < 0 and abs(old_mean[i] - old_mean[j]) > 1e-9 * max(old_mean[i], old_mean[j]) and abs(new_mean[i] - new_mean[j]) > 1e-9 * max(new_mean[i], new_mean[j]):
                bad("order_of_means_reversed", f"{old_mean[i]!r},{old_mean[j]!r} -> {new_mean[i]!r},{new_mean[j]!r}")
                break
        if np.any(new_shape > mshape * (1 + 1e-9)) or not np.all(np.isfinite(new[free])) or np.any(new[free, 1] <= 0):
            bad("rescaled_shape_exceeds_cap_or_invalid", f"shapes {new_shape.tolist()} cap {mshape}")
        mn, _ = fit.node_moments()
        if not np.array_equal(mn[fixed], ts.nodes_time[fixed]):
            bad("sample_times_changed_by_rescaling", f"{mn[fixed].tolist()} vs {ts.nodes_time[fixed].tolist()}")
        if len(ob) > 2:
            keys.append(f"{cid}|{sub}")
        for tvec, lik in areas[:2]:
            evals += 1
            c, o, d, idx = rescaling.mutational_area(tvec, lik, ts.edges_parent, ts.edges_child)
            rc, ro, rd = area_reference(tvec, lik, ts.edges_parent, ts.edges_child)
            if not (len(c) == len(rc) and np.allclose(c, rc, rtol=1e-12, atol=1e-12) and np.allclose(o, ro, rtol=1e-12, atol=1e-12) and np.allclose(d, rd, rtol=0, atol=0)):
                bad("mutational_area_wrong", f"times {tvec.tolist()}: counts {c.tolist()} vs {rc.tolist()}; area {o.tolist()} vs {ro.tolist()}; duration {d.tolist()} vs {rd.tolist()}")
    # complete lattice of time vectors for mutational_area alone
    inner = [u for u in range(ts.num_nodes) if not fixed[u]]
    if len(inner) <= 4 and case["H"]["kind"] == "cont":
        lik = np.column_stack([np.arange(1.0, ts.num_edges + 1), ts.edges_right - ts.edges_left])
        for vals in itertools.product((0.5, 1.0, 2.0, 3.0), repeat=len(inner)):
            tvec = ts.nodes_time.copy()
            tvec[inner] = vals
            evals += 1
            tags["mc_states"] = tags.get("mc_states", 0) + 1
            tags["mc_transitions"] = tags.get("mc_transitions", 0) + 1
            c, o, d, idx = rescaling.mutational_area(tvec, lik, ts.edges_parent, ts.edges_child)
            rc, ro, rd = area_reference(tvec, lik, ts.edges_parent, ts.edges_child)
            if not (len(c) == len(rc) and np.allclose(c, rc, rtol=1e-12, atol=1e-12) and np.allclose(o, ro, rtol=1e-12, atol=1e-12) and np.array_equal(d, rd)):
                viol.append({"kind": "mutational_area_wrong", "msg": f"times {tvec.tolist()}: counts {c.tolist()} vs {rc.tolist()}; area {o.tolist()} vs {ro.tolist()}", "facts": {}, "sub": {"vector": list(vals)}})
                break
            if len(set(vals)) < len(vals):
                keys.append(f"{cid}|vec{vals}")
    return {"evals": evals, "viol": viol, "tags": tags, "keys": keys}
