"""C17 Population-size time transforms are exact and mutually inverse."""

import itertools
from fractions import Fraction as F

import numpy as np

PROPERTY = "C17"
LEVEL = "exploration"
RULE = (
    "complete lattice of piecewise-constant histories: 1..3 (quick) / 1..4 (thorough) epochs, sizes in {0.5,1e2,1e4,3e4,1e6}^epochs (quick: {1e2,1e4,1e6}), "
    "breaks = every increasing subset of {0.5,10,1e3,1e4,1e6}; time vectors = {0, every break, every break +-1 ulp, midpoints, 10x last "
    "break}, passed sorted, reversed and rotated. oracle: to_coalescent == exact rational integral of 1/(2N(t)) (error <= 64 ulp of the "
    "largest intermediate term); element-wise results independent of vector order (bit-exact); to_natural(to_coalescent(t)) == t within "
    "the conditioning bound; both maps fix 0 and are non-decreasing; PopulationSizeHistory(**as_dict()) rebuilds bit-identical arrays; "
    "gamma_to_natural mean/variance == mode-split mpmath quadrature of the mapped variable (1e-8 of the second moment), one epoch == "
    "exactly rescaled gamma (1e-10: the variance is formed as E[x^2]-E[x]^2). one evaluation = one (history, vector) or (history, shape, rate); non-trivial = >=2 epochs; distinct = all"
)
ASSUMPTIONS = ["finite lattice of a continuous domain; break boundaries +-1 ulp included", "mpmath quadrature at 30 digits with panels split at the gamma mode +-k sd"]
NEEDS_TSDATE = True

SIZES = [0.5, 1e2, 1e4, 3e4, 1e6]
BREAKS = [0.5, 10.0, 1e3, 1e4, 1e6]
GAM = [0.5, 1.0, 2.0, 50.0]


def cases(tier, seed):
    out = []
    maxe = 3 if tier == "quick" else 4
    sizes = [1e2, 1e4, 1e6] if tier == "quick" else SIZES
    for e in range(1, maxe + 1):
        for br in itertools.combinations(BREAKS, e - 1):
            for sz in itertools.product(sizes, repeat=e):
                out.append({"sizes": list(sz), "breaks": list(br), "tier": tier})
    return {"cases": out, "bound": f"epochs<= {maxe}; sizes {SIZES}; breaks subsets of {BREAKS}; gamma (shape,rate) in {GAM}^2", "exhaustive": True, "level": "exploration"}


def exact_coal(t, sizes, breaks):
    """integral_0^t 1/(2N(s)) ds, exact; also the largest intermediate magnitude of the code's formula"""
    t = F(t)
    edges = [F(0)] + [F(b) for b in breaks] + [None]
    acc = F(0)
    for i, N in enumerate(sizes):
        lo, hi = edges[i], edges[i + 1]
        if t > lo:
            top = t if hi is None or t < hi else hi
            acc += (top - lo) / (2 * F(N))
    return acc


def run(case):
    import mpmath
    from tsdate.demography import PopulationSizeHistory

    sizes, breaks = case["sizes"], case["breaks"]
    viol, tags, keys = [], {}, []
    evals = 0
    u = 2.0**-52

    def bad(kind, msg):
        if len(viol) < 6:
            viol.append({"kind": kind, "msg": msg, "facts": {}})

    h = PopulationSizeHistory(sizes, breaks) if breaks else PopulationSizeHistory(sizes if len(sizes) > 1 else sizes[0])
    # as_dict round trip
    evals += 1
    h2 = PopulationSizeHistory(**h.as_dict())
    for attr in ("time_breaks", "population_size", "coalescent_breaks", "coalescent_rate"):
        if not np.array_equal(getattr(h, attr), getattr(h2, attr)):
            bad("as_dict_not_identical", f"{attr}: {getattr(h, attr)} vs {getattr(h2, attr)}")
    # time vectors
    pts = {0.0}
    for b in breaks:
        pts.update([b, float(np.nextafter(b, 0)), float(np.nextafter(b, np.inf))])
    edges = [0.0] + breaks
    for a, b in zip(edges[:-1], edges[1:]):
        pts.add((a + b) / 2)
    pts.add(10 * (breaks[-1] if breaks else 1.0))
    base = np.array(sorted(pts))
    single = np.array([h.to_coalescent_timescale(np.array([x]))[0] for x in base])
    for name, vec in (("sorted", base), ("reversed", base[::-1].copy()), ("rotated", np.roll(base, len(base) // 2))):
        evals += 1
        try:
            c = h.to_coalescent_timescale(vec)
            back = h.to_natural_timescale(c)
        except Exception as e:  # noqa: BLE001
            bad("transform_raises", f"{name}: {type(e).__name__}: {e}")
            continue
        lookup = dict(zip(base.tolist(), single.tolist()))
        if not np.array_equal(c, np.array([lookup[x] for x in vec.tolist()])):
            bad("result_depends_on_vector_order", f"{name} vector {vec.tolist()}: {c.tolist()} vs element-wise {[lookup[x] for x in vec.tolist()]}")
        for x, cx, bx in zip(vec.tolist(), c.tolist(), back.tolist()):
            ref = exact_coal(x, sizes, breaks)
            # conditioning: forward = x/(2N_i) + step_i ; magnitude of terms
            i = int(np.searchsorted(np.array(edges), x, side="right") - 1)
            mag = max([abs(x)] + breaks[:i]) / (2 * min(sizes[: i + 1]))  # largest intermediate term of the piecewise formula
            if not abs(F(cx) - ref) <= F(64 * u * max(mag, 1e-300)):
                bad("coalescent_time_not_the_integral", f"t={x!r}: got {cx!r} exact {float(ref)!r}")
            # inverse
            magb = max([abs(cx)] + h.coalescent_breaks.tolist()[: i + 1]) * 2 * max(sizes[: i + 1])
            # the forward rounding error (<= 64u*mag) is amplified by the steepest inverse slope 2*max(N)
            # (and the computed coalescent breakpoints carry the same cancellation error)
            if not abs(bx - x) <= 256 * u * max(magb, 1e-300) + 64 * u * (max([abs(x)] + breaks) / (2 * min(sizes))) * 2 * max(sizes):
                bad("round_trip_does_not_recover_input", f"t={x!r} -> {cx!r} -> {bx!r}")
            if x == 0 and (cx != 0 or bx != 0):
                bad("zero_not_fixed", f"{cx!r} {bx!r}")
        if name == "sorted":
            tolm = 64 * u * max(breaks + [1e-300]) / (2 * min(sizes))  # rounding of the largest intermediate term
            if np.any(np.diff(c) < -tolm) or np.any(np.diff(back) < -256 * u * max(h.coalescent_breaks.tolist() + [1e-300]) * 2 * max(sizes)):
                bad("not_monotone", f"{vec.tolist()} -> {c.tolist()} -> {back.tolist()}")
            far = [j for j in range(len(vec) - 1) if vec[j + 1] > vec[j] * (1 + 1e-6) + 1e-300 and not (c[j + 1] > c[j] or (c[j + 1] - c[j]) >= -tolm and abs(c[j + 1] - c[j]) <= tolm)]
            if far:
                bad("not_strictly_increasing", f"{vec.tolist()} -> {c.tolist()}")
            if len(sizes) > 1:
                keys.append(f"{sizes}|{breaks}|vec")
    # gamma_to_natural
    mpmath.mp.dps = 30
    cb = [mpmath.mpf(x) for x in h.coalescent_breaks.tolist()] + [mpmath.inf]
    tb = [mpmath.mpf(x) for x in h.time_breaks.tolist()]
    for shape, rate in itertools.product(GAM, GAM if case.get("tier") != "quick" else GAM[1:3]):
        evals += 1
        try:
            ns, nr = (float(x) for x in h.gamma_to_natural(shape, rate))
        except Exception as e:  # noqa: BLE001
            bad("gamma_to_natural_raises", f"{type(e).__name__}: {e}")
            continue
        if len(sizes) == 1:
            if not (abs(ns - shape) <= 1e-10 * shape and abs(nr - rate / (2 * sizes[0])) <= 1e-10 * rate / (2 * sizes[0])):
                bad("one_epoch_not_exactly_rescaled", f"shape {shape} rate {rate}: got {ns!r},{nr!r} want {shape!r},{rate / (2 * sizes[0])!r}")
            continue
        s, r = mpmath.mpf(shape), mpmath.mpf(rate)
        lognorm = s * mpmath.log(r) - mpmath.loggamma(s)
        mode, sd = (s - 1) / r if shape > 1 else mpmath.mpf(0), mpmath.sqrt(s) / r
        m1 = m2 = mpmath.mpf(0)
        for i in range(len(sizes)):
            lo, hi = cb[i], cb[i + 1]
            a_, b_ = tb[i], 2 * mpmath.mpf(sizes[i])  # g(c) = tb_i + 2N_i (c - cb_i)

            def g(c, a_=a_, b_=b_, lo=lo):
                return a_ + b_ * (c - lo)

            def dens(c):
                return mpmath.exp(lognorm + (s - 1) * mpmath.log(c) - r * c) if c > 0 else (mpmath.mpf(0) if shape >= 1 else mpmath.inf)

            cuts = sorted({x for k in range(-10, 41, 2) for x in [mode + k * sd] if lo < x < hi})
            panel = [lo] + cuts + ([hi] if hi != mpmath.inf else [max(cuts[-1] if cuts else lo, mode + 40 * sd) * 4 + 1, mpmath.inf])
            if shape < 1 and lo == 0:
                panel = [lo, min(panel[1], mpmath.mpf("1e-30")) / 1] + panel[1:] if panel[1] > mpmath.mpf("1e-30") else panel
            m1 += mpmath.quad(lambda c: g(c) * dens(c), panel)
            m2 += mpmath.quad(lambda c: g(c) ** 2 * dens(c), panel)
        mean, var = float(m1), float(m2 - m1 * m1)
        # second, algebraic reference (incomplete gamma functions at 30 digits): validates the quadrature, and
        # measures the conditioning of the published closed form in double precision
        mpmath.mp.dps = 60  # the closed form itself cancels badly: 30 digits are not enough for extreme histories
        c1 = c2 = mpmath.mpf(0)
        mag = mpmath.mpf(0)

        def P(a, x):
            return mpmath.gammainc(a, 0, x, regularized=True)

        for i in range(len(sizes)):
            lo, hi = cb[i], cb[i + 1]
            p0 = P(s, r * hi) - P(s, r * lo)
            p1 = (s / r) * (P(s + 1, r * hi) - P(s + 1, r * lo))
            p2 = (s * (s + 1) / r**2) * (P(s + 2, r * hi) - P(s + 2, r * lo))
            a_, b_ = tb[i] - 2 * mpmath.mpf(sizes[i]) * lo, 2 * mpmath.mpf(sizes[i])
            c1 += a_ * p0 + b_ * p1
            c2 += a_ * a_ * p0 + 2 * a_ * b_ * p1 + b_ * b_ * p2
            # every incomplete-gamma value is O(1) with absolute error ~1 ulp, and enters multiplied by these coefficients
            mag += a_ * a_ + abs(2 * a_ * b_) * (s / r) + b_ * b_ * (s * (s + 1) / r**2)
        mpmath.mp.dps = 30
        if not (abs(c1 - m1) <= mpmath.mpf("1e-12") * abs(m1) and abs(c2 - m2) <= mpmath.mpf("1e-12") * abs(m2)):
            bad("harness_quadrature_disagrees_with_closed_form", f"sizes {sizes} breaks {breaks} shape {shape} rate {rate}: {float(m1)!r} vs {float(c1)!r}; {float(m2)!r} vs {float(c2)!r}")
            continue
        ill = bool(64 * u * float(mag) > 1e-8 * float(m2))  # double-precision evaluation of the closed form cannot reach the tolerance
        gm, gv = ns / nr, ns / nr**2
        if not (abs(gm - mean) <= 1e-8 * abs(mean) and abs(gv - var) <= 1e-8 * float(m2)):
            viol.append({"kind": "gamma_to_natural_moments_wrong", "msg": f"sizes {sizes} breaks {breaks} shape {shape} rate {rate}: mean {gm!r} vs {mean!r}; var {gv!r} vs {var!r}",
                         "facts": {"double_precision_cancellation_exceeds_tolerance": ill}})
        if ill:
            tags["ill_conditioned_gamma_cases"] = tags.get("ill_conditioned_gamma_cases", 0) + 1
        keys.append(f"{sizes}|{breaks}|{shape}|{rate}")
    return {"evals": evals, "viol": viol, "tags": tags, "keys": keys}
