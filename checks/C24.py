"""C24 Per-edge mutation, span and singleton-block tallies are exact."""

import itertools

import numpy as np
import tskit

from mc import dating, tsspace
from mc.common import call, classify_exc, exc_text

PROPERTY = "C24"
LEVEL = "model_checking"
RULE = (
    "one evaluation = one tally call (count_mutations plain / size_biased / with explicit node_is_sample mask, "
    "util.mutation_span_array, phasing.block_singletons) on (ARG, mutation pattern incl. above-root and isolated-sample "
    "mutations, missing-data decorator K, internal-sample decorator H, diploid decorator D). oracle = direct tally with tskit "
    "tree iteration: mutation -> edge above its node at its position (NULL above roots), per-tree samples-below weights w.r.t. "
    "the sample set in force, blocks = maximal runs of trees in which the individual's two leaf edges are unchanged, with their "
    "span and singleton count, every singleton mapped to its block. non-trivial = multi-tree input or non-default sample set or "
    ">=1 block; distinct = (input, call)"
)
ASSUMPTIONS = ["small-scope ARGs", "tskit tree iteration (Tree.edge, num_samples with tracked samples) is trusted"]


def warmup():
    dating.warmup_all()


def cases(tier, seed):
    sp = tsspace.space(tier, renumber=("reverse",))
    out = []
    for a in sp.args:
        E = tsspace.arg_ts(a).num_edges
        pats = tsspace.mutation_patterns(E, "Ms" if tier == "quick" else "Mp")
        Ks = [None]
        if a["L"] > 1:
            Ks += [[s, l] for s in range(a["n"]) for l in range(a["L"])]
            if tier == "quick":
                Ks = Ks[:1] + Ks[1::3]
        for (pn, pat), K in itertools.product(pats, Ks):
            out.append({"arg": a, "mut": pat, "K": K, "above_root": 1 if pn in ("mod3", "ones") else 0})
    return {
        "cases": out,
        "states": sp.states,
        "transitions": sp.transitions,
        "bound": f"{sp.describe()} x mutation menu(+above root,+isolated sample) x K(sample,locus) x H(internal sample) x D(diploid) x sample masks",
        "exhaustive": True,
    }


def build(case):
    ts = tsspace.arg_ts(case["arg"])
    K = case["K"]
    if K is not None:
        ts = tsspace.isolate_sample(ts, K[0], [K[1]])
    E = ts.num_edges
    pat = list(case["mut"])
    pat = (pat * (E // max(1, len(pat)) + 1))[:E]
    ts = tsspace.add_mutations(ts, pat, above_root=case["above_root"])
    if K is not None:  # a mutation on the isolated sample inside the isolated locus
        t = ts.dump_tables()
        s = t.sites.add_row(K[1] + 0.987, "A")
        t.mutations.add_row(s, K[0], derived_state="T")
        t.sort()
        t.build_index()
        t.compute_mutation_parents()
        ts = t.tree_sequence()
    return ts


def ref_counts(ts, mask, size_biased):
    """direct tally; returns (edge stats [E,2], mutation edge [M])"""
    E = ts.num_edges
    stats = np.zeros((E, 2))
    medge = np.full(ts.num_mutations, tskit.NULL, dtype=np.int64)
    smp = set(int(u) for u in np.flatnonzero(mask))

    for tree in ts.trees():
        span = tree.interval.right - tree.interval.left
        below = {}

        def nbelow(u):
            if u not in below:
                below[u] = sum(1 for v in tree.nodes(u) if v in smp)
            return below[u]

        for u in tree.nodes():
            e = tree.edge(u)
            if e != tskit.NULL:
                w = nbelow(u) if size_biased else 1.0
                stats[e, 1] += w * span
        for site in tree.sites():
            for m in site.mutations:
                e = tree.edge(m.node)
                if e != tskit.NULL:
                    medge[m.id] = e
                    stats[e, 0] += nbelow(m.node) if size_biased else 1.0
    return stats, medge


def ref_blocks(ts, unphased):
    """per individual: maximal runs of trees with the same (edge above node a, edge above node b) pair.
    returns list of (frozenset(edges), span, nsingletons, [mutation ids])"""
    out = []
    for ind in ts.individuals():
        if not unphased[ind.id] or len(ind.nodes) != 2:
            continue
        a, b = (int(x) for x in ind.nodes)
        cur = None
        for tree in ts.trees():
            pair = (tree.edge(a), tree.edge(b))
            muts = [m.id for site in tree.sites() for m in site.mutations if m.node in (a, b)]
            span = tree.interval.right - tree.interval.left
            if tskit.NULL in pair:
                # no pair of leaf branches here (missing data): no block; singletons here belong to no block
                if cur is not None:
                    out.append(cur)
                cur = None
                continue
            if cur is not None and cur[0] == pair:
                cur[1] += span
                cur[2] += muts
            else:
                if cur is not None:
                    out.append(cur)
                cur = [pair, span, list(muts)]
        if cur is not None:
            out.append(cur)
    return out


def run(case):
    import tsdate
    from tsdate import phasing, rescaling, util

    ts0 = build(case)
    viol, tags, keys = [], {}, []
    evals = 0
    cid = f"{case['arg']['id']}|{case['mut']}|{case['K']}|{case['above_root']}"

    def bad(kind, msg, sub, **facts):
        if len(viol) < 8:
            viol.append({"kind": kind, "msg": msg, "facts": facts, "sub": sub})

    variants = [("plain", ts0)]
    inner = [u for u in range(ts0.num_nodes) if not ts0.node(u).is_sample() and u in set(ts0.edges_child)]
    if inner:
        variants.append(("internal", tsspace.flag_internal_samples(ts0, inner[:1])))
    for vname, ts in variants:
        default_mask = np.zeros(ts.num_nodes, dtype=bool)
        default_mask[list(ts.samples())] = True
        masks = [("default", None)]
        smp = list(ts.samples())
        if vname == "plain":
            masks.append(("first_two", smp[:2]))
            masks.append(("all_but_first", smp[1:]))
            if inner:
                masks.append(("with_internal", smp[:1] + inner[-1:]))
        for (mname, mset), sb in itertools.product(masks, (False, True)):
            sub = {"variant": vname, "mask": mname, "size_biased": sb}
            if mset is None:
                mask = default_mask
                ok, res = call(rescaling.count_mutations, ts, size_biased=sb)
            else:
                mask = np.zeros(ts.num_nodes, dtype=bool)
                mask[mset] = True
                ok, res = call(rescaling.count_mutations, ts, node_is_sample=mask.copy(), size_biased=sb)
            evals += 1
            if not ok:
                bad("count_mutations_raised", exc_text(res), sub, exc=type(res).__name__, explicit_mask=mset is not None)
                continue
            stats, medge = res
            rstats, rmedge = ref_counts(ts, mask, sb)
            if not np.array_equal(np.asarray(medge, dtype=np.int64), rmedge):
                bad("mutation_edge_wrong", f"got {list(medge)} want {list(rmedge)}", sub)
            if stats.shape != rstats.shape or not np.allclose(stats, rstats, rtol=1e-12, atol=1e-12):
                bad("edge_tally_wrong", f"got {stats.tolist()} want {rstats.tolist()}", sub)
            if ts.num_trees > 1 or mset is not None:
                keys.append(f"{cid}|{sub}")
        # util.mutation_span_array
        evals += 1
        ok, res = call(util.mutation_span_array, ts)
        if not ok:
            bad("mutation_span_array_raised", exc_text(res), {"variant": vname})
        else:
            rstats, rmedge = ref_counts(ts, default_mask, False)
            if not np.array_equal(np.asarray(res[1], dtype=np.int64), rmedge) or not np.allclose(res[0], rstats, rtol=1e-12, atol=1e-12):
                bad("mutation_span_array_wrong", f"got {res[0].tolist()},{list(res[1])} want {rstats.tolist()},{list(rmedge)}", {"variant": vname})
    # singleton blocks (diploid decorator), all individuals unphased / only the first
    if ts0.num_samples >= 2 and case["arg"]["n"] in (2, 4):
        tsd = dating.add_individuals(ts0)
        for which in ("all", "first"):
            unph = np.zeros(tsd.num_individuals, dtype=bool)
            unph[:] = True
            if which == "first":
                unph[1:] = False
                if tsd.num_individuals < 2:
                    continue
            sub = {"blocks": which}
            evals += 1
            ok, res = call(phasing.block_singletons, tsd, unph)
            if not ok:
                a_missing = any(
                    tskit.NULL in (tree.edge(int(ind.nodes[0])), tree.edge(int(ind.nodes[1])))
                    for ind in tsd.individuals() if unph[ind.id] for tree in tsd.trees()
                )
                bad("block_singletons_raised", exc_text(res), sub, exc=type(res).__name__, unphased_individual_partly_missing=a_missing)
                continue
            bstats, bedges, mblock = res
            ref = ref_blocks(tsd, unph)
            want = sorted((tuple(sorted(int(e) for e in pair)), round(span, 12), len(muts)) for pair, span, muts in ref)
            got = sorted((tuple(sorted(int(e) for e in bedges[i])), round(float(bstats[i, 1]), 12), int(bstats[i, 0])) for i in range(bedges.shape[0]))
            a_missing = any(
                tskit.NULL in (tree.edge(int(ind.nodes[0])), tree.edge(int(ind.nodes[1])))
                for ind in tsd.individuals() if unph[ind.id] for tree in tsd.trees()
            )
            facts = {"unphased_individual_partly_missing": a_missing}
            if got != want:
                # known finding F12 only miscounts singletons (or asserts); block edges and spans must still be right
                facts = dict(facts, block_edges_and_spans_match=sorted(g[:2] for g in got) == sorted(w[:2] for w in want))
                bad("blocks_wrong", f"got (edges,span,singletons) {got} want {want}", sub, **facts)
            else:
                # every singleton of an unphased individual points at the block holding its position
                exp_block = np.full(tsd.num_mutations, tskit.NULL, dtype=np.int64)
                okmap = True
                for pair, span, muts in ref:
                    for m in muts:
                        b = int(mblock[m])
                        if b == tskit.NULL or tuple(sorted(int(e) for e in bedges[b])) != tuple(sorted(int(e) for e in pair)):
                            okmap = False
                        exp_block[m] = b
                other = [m for m in range(tsd.num_mutations) if exp_block[m] == tskit.NULL and mblock[m] != tskit.NULL]
                if not okmap or other:
                    bad("mutation_block_wrong", f"mutations_block={list(mblock)} blocks={bedges.tolist()}", sub, **facts)
            if len(ref):
                keys.append(f"{cid}|{sub}")
                tags["blocks_seen"] = tags.get("blocks_seen", 0) + len(ref)
    return {"evals": evals, "viol": viol, "tags": tags, "keys": keys}
