"""Per-property manifest facts (level, technique, trusted base)."""

HOOK_COMMITS = []
NOT_APPLICABLE = {}

_ARGS = "small-scope hypothesis: ARGs with n<=4-6 samples, L<=3 loci, R<=2 recombinations; tskit, numpy and the brute-force reference model are trusted"

REGISTRY = {
    "C01": {
        "level": "model_checking",
        "technique": "explicit-state enumeration of input ARGs x complete option product, predicate oracle on every execution",
        "text": "Every ARG of the bounded ancestral-recombination transition system, crossed with complete finite menus of mutation placement, time scale, sample-age pattern, method, min_branch_length, constr_iterations and VG options, is dated by the real code and every returned tree sequence is checked edge by edge and mutation by mutation. Exhaustive below the bound, so a violating shape/option pair cannot be missed there; nothing is claimed above it.",
        "note": _ARGS + "; calls that raise are outside C01 and judged by C35",
    },
    "C10": {
        "level": "model_checking",
        "technique": "explicit-state enumeration of single-tree inputs, brute-force reference model of the discretised posterior",
        "text": "All ranked single-tree shapes with polytomies up to 5 (quick) / 6 (thorough) leaves x all {0,1,3}^E mutation vectors (pattern menu for the largest shapes) x grids x priors x both probability spaces are run through inside_outside; posterior marginals and the returned likelihood are compared with exhaustive summation over all grid assignments.",
        "note": "reference sums prior x Poisson over all K^m assignments using math.lgamma; grids of 4 and 6 points; " + _ARGS,
    },
}

def _mc(technique, text, note=_ARGS):
    return {"level": "model_checking", "technique": technique, "text": text, "note": note}


REGISTRY.update({
    "C02": _mc("explicit-state enumeration of inputs x irrelevant-data variants, whole-TableCollection diff oracle with allow-list",
               "Every bounded ARG x mutation menu (recurrent and above-root mutations) x 8 metadata/population/individual/migration/provenance variants x methods x set_metadata x singletons_phased is dated and the complete input and output table collections are diffed against an explicit allow-list; exhaustive below the bound."),
    "C03": _mc("explicit-state enumeration of inputs x every internal-sample / historical-leaf pattern x option product, exact per-sample oracle",
               "Every bounded ARG x every single and pair of internal nodes flagged as sample x historical leaves x min_branch_length {1e-8,0.5,2,5 ranks} x constr_iterations {None,0,1,1000} x methods; each sample's output time must equal max(input, max_child fl(out+mbl)) bit-exactly. Pushes are actually driven (tens of thousands observed per run)."),
    "C04": _mc("explicit-state enumeration of inputs x option product, fit-vs-metadata equality oracle and recomputed grid moments",
               "Every bounded ARG x mutation menu (incl. above-root => NaN posteriors) x H x methods x set_metadata {None,True} x VG option menu / both probability spaces; decoded metadata is compared exactly with the fit object, inside_outside rows are re-normalised and their moments recomputed independently."),
    "C05": _mc("explicit-state enumeration of inputs x complete product of max_iterations, max_shape, rescaling, phasing; predicate oracle on the fit",
               "Every bounded ARG x Mp menu (zero-mutation edges, single-mutation inputs) x H x diploid individuals x {1,2,25} iterations x max_shape {1.5,2,10,1000} x rescaling {off,2,default} x singletons_phased; properness, cap and phase range checked on every fit; the cap is seen binding ~2e5 times per quick run."),
})

REGISTRY.update({
    "C13": _mc("explicit-state enumeration of inputs x option product, reference re-implementation of the documented maximization rule",
               "Every bounded ARG x mutation menu (incl. all-zero) x 2 grids x 2 prior distributions x both probability spaces x 2 eps is run through maximization with return_fit; the chosen timepoint of every node is re-derived from fit.inside by an independent implementation of the documented rule (tie tolerant), ordering index(child)<=index(parent) is checked on every edge."),
    "C14": _mc("explicit-state exploration of the n-coalescent jump chain on integer partitions (exact rationals) validating a closed form, then every (n,k) row of the real prior table",
               "The partition chain (states = integer partitions, transitions = mergers) gives exact moments for n<=14 (quick) / 22 (thorough); the closed form it validates is then compared in exact rationals and long double with ConditionalCoalescentTimes for every (n,k), 2<=k<=n<=300 (quick) / 1000 (thorough), both distributions.",
               "Kingman coalescent; long-double closed form trusted above the rational bound after exact validation below it"),
    "C15": _mc("explicit-state enumeration of multi-tree inputs x every (sample, locus) missing-data pattern, direct per-tree tally oracle",
               "Every bounded ARG, plus every variant in which one sample is isolated over one locus, is passed to SpansBySamples / MixturePrior; the (samples in tree, samples below) -> span maps, their totals, and the mixture prior moments are recomputed by a direct tskit tree iteration and the C14 reference."),
    "C16": _mc("explicit-state enumeration of inputs x complete product of grid sizes 2..40 / explicit grids x distributions x population-size forms, reference cdf oracle",
               "Every bounded ARG and comb trees up to 12 samples x all integer timepoints 2..40 and 4 explicit grids x {lognorm, gamma} x 5 population sizes (3-epoch history as object and dict): grid monotone from 0, explicit grid returned bit-exactly, every non-sample row equals the normalised diff of an independent cdf (math.erfc / mpmath) to 1e-10, samples have no row."),
})

REGISTRY.update({
    "C21": _mc("explicit-state enumeration of inputs x options; every EP iteration observed through a harness subclass, and every single edge/block update of the schedule driven one step at a time through the real propagate_likelihood with the bookkeeping invariant checked in every intermediate state",
               "Every bounded ARG x mutation menu x sample decorators x diploid individuals x max_shape x regularisation x phasing: after each of 8 iterations of a real variational_gamma call, and after every prefix of the per-edge update schedule (hundreds of thousands of intermediate states per run), posterior == scale * (prior + constraint + all messages addressed to the node); rescaling is the identity on posteriors; fixed nodes keep their times; the stepper reproduces iterate() bit for bit."),
    "C24": _mc("explicit-state enumeration of inputs x missing-data / internal-sample / diploid decorators x sample masks, direct per-tree tally oracle",
               "Every bounded ARG (both node numberings) x mutation menu (above-root, isolated-sample mutations) x every (sample, locus) isolation x internal samples x explicit sample masks x plain/size-biased: per-edge counts, spans, mutation->edge map and singleton blocks recomputed by direct tskit tree iteration."),
    "C27": _mc("explicit-state enumeration of DAGs x complete product of unconstrained time vectors (ties, inversions) x eps x iteration counts, exact fixed-point oracle",
               "Every bounded ARG's DAG x fixed-node masks x all time vectors over a small alphabet x eps {1e-8,.5,1} x iterations {0,1,3,100}: iterations=0 output equals the children-first max formula bit-exactly, strictly feasible vectors are returned unchanged, f_k(f_j(x)) == f_j(x) for all j,k."),
    "C30": _mc("explicit-state enumeration of unsimplified and simplified generator terminals x internal-sample flags, direct per-tree scan oracle, accept/reject of the three methods",
               "Every unsimplified terminal of the ARG generator (nodes unary in some trees only) and its simplification, each also with every internal node flagged as a sample: the three detectors equal a direct num_children==1 scan; variational_gamma rejects iff a non-sample node is locally unary, the discrete methods iff any node is; everything else is accepted."),
})

_META = _ARGS + "; agreement tolerances: bit-identity (C08), 1e-9 on exactly representable transformations, 1e-6 otherwise with tie-sensitive inputs classified separately"
REGISTRY.update({
    "C06": _mc("explicit-state enumeration of inputs x methods/options x a two-part lattice of unit factors; metamorphic oracle with an exactness argument (power-of-two factors scale every intermediate exactly)",
               "Every bounded ARG x mutation menu x 7-9 method/option vectors x 10 unit factors: outputs of the run at (mu/c, c*mbl, c*N, c*eps, c*grid) must equal c (c^2 for variances) times the base run, to 1e-9 on power-of-two factors without any guard and to 1e-6 elsewhere.", _META),
    "C07": _mc("explicit-state enumeration of inputs x methods/options x lattice of coordinate factors x uniform/non-uniform locus lengths; metamorphic oracle",
               "Every bounded ARG x mutation menu x method/option vectors x 10 factors x {unit loci, loci of growing length}: multiplying all genomic coordinates by c and dividing the rate by c must leave node times, mutation times and posterior moments unchanged (1e-9 exact factors, 1e-6 others).", _META),
    "C08": _mc("explicit-state enumeration of inputs x each irrelevant-data perturbation alone and all together x methods; bit-identity oracle",
               "Every bounded ARG x mutation menu x 9 perturbations (metadata under three codecs, schemas, populations, provenance, time_units, reference, edge metadata, state strings, monomorphic sites, known mutation times, individuals) x 5 method/option vectors: all numeric outputs bit-identical to the unperturbed run; a perturbed run may not fail where the plain one returns.", _META),
})

REGISTRY.update({
    "C11": _mc("explicit-state enumeration of inputs x ALL permutations of non-sample ids x ALL linear extensions of the ancestor order (with ties and rescaled times); metamorphic oracle with objective-tie rule for maximization",
               "Every bounded ARG with >=2 internal nodes x mutation menu x every renumbering of the internal nodes (<=120) x every linear extension of the node partial order as new input times (each also tied pairwise and scaled by 1e-3 / 1e6) x {inside_outside linear/log, maximization}: outputs mapped back agree to 1e-9; maximization may differ only at verified objective ties.", _META),
    "C12": _mc("explicit-state enumeration of inputs x grids x priors x eps x standardisation; differential oracle linear vs logarithmic space with explicit underflow/overflow detection",
               "Every bounded ARG x mutation menu (incl. all-zero and 20 per edge) x 4 grids x 2 prior distributions x 2 eps x outside_standardize x {inside_outside, maximization}: linear and logarithmic runs agree to 1e-8 on times, moments and every posterior row unless the linear run is seen to underflow/overflow; one space failing where the other returns is a violation.", _META),
    "C38": _mc("explicit-state enumeration of inputs x ALL numberings of non-sample nodes x probability spaces; invariance + locality + inside-only oracles",
               "Every bounded ARG with >=2 internal nodes x mutation menu x every numbering of the internal nodes x both spaces with ignore_oldest_root=True: results identical across numberings, nodes not below the oldest root identical to the option-off run, nodes whose only parent is the oldest root have posterior == normalised inside, and the option changes something below the root.", _META),
})

REGISTRY.update({
    "C09": _mc("schedule and history enumeration on the real code: all completion orders of the likelihood pool through a virtual pool (plus the real pool), all call sequences of length <=3 sharing one prior object, repetition in-process and across fresh processes with different hash seeds",
               "Every bounded ARG x 3 mutation patterns: 3 in-process repetitions x 4 method configs byte-identical; 12-input stripe in 4 fresh processes with PYTHONHASHSEED 0/1/2/12345; every permutation of imap_unordered completion order (k<=5 keys) and real pools of 1/2/4 workers give the same bytes as the serial run; all 84 sequences of {IO,max}x{lin,log} calls on one shared prior agree with fresh-prior calls and leave the prior object equal to a fresh one."),
    "C17": {"level": "exploration", "technique": "exhaustive enumeration of a finite lattice of population-size histories x boundary time vectors x gamma parameters; exact rational integral and two independent high-precision quadrature references",
            "text": "Complete product lattice of 1-3 (quick) / 1-4 (thorough) epoch histories (sizes 0.5..1e6, breaks 0.5..1e6) with time vectors containing 0, every break +-1 ulp, midpoints, in three orders: forward map equals the exact rational integral within a stated conditioning bound, inverse recovers inputs, order of the vector is irrelevant, as_dict round-trips bit-exactly; gamma_to_natural moments equal mode-split 30-digit quadrature (itself cross-checked against a 60-digit closed form on every point).",
            "note": "finite lattice of a continuous domain (boundaries included); no claim between lattice points; mpmath trusted"},
    "C36": _mc("crash-point enumeration (every prefix of the real writer's op log x every byte cut of the in-flight write) and stateless schedule exploration with iterative preemption bounding of 2-3 real concurrent callers, on the real code through an I/O seam; file-system model validated against the real directory each run",
               "For table sizes 2,3,10 (thorough also 25,60) and raw write granularities whole/64/16 bytes every process-crash state of a single writer is materialised and two successive real callers must return the exact table; 2 callers (all interleavings within preemption bound 3 / 6) and 3 callers (bound 1 / 2) from the empty cache, and 2 callers from a spread of crash states, must all hold the exact table and leave a cache that a later run reads back exactly.",
               "process-crash semantics (completed syscalls durable; no power-loss reordering); threads stand in for processes; np.savetxt/np.genfromtxt/tempfile/os are exercised for real"),
})

REGISTRY.update({
    "C20": _mc("explicit enumeration of every star-like input on n<=4 samples / L<=3 loci (all block partitions per locus x three parent-sharing modes) x mutation menu x rate x iterations x max_shape; closed-form conjugate oracle",
               "All star-like tree sequences below the bound x 5 mutation patterns x mu {0.5,1e-8,1e3} x max_iterations {1,2,5,25} x max_shape {2,10,1000}: each parent's posterior must be Gamma(1+sum y, mu*sum span), scaled by one factor when the cap binds (1e-9)."),
    "C26": _mc("exhaustive enumeration of all count vectors in {0,1,2,5}^m (m<=5 quick, 7 thorough) x option product; definition oracle (fixed) and brute force over all 2^(m-1) segmentations (Poisson)",
               "Every count vector below the bound x offsets x epochs / penalties x min_counts x min_offset: the fixed helper equals its definition (boundary ties within 4 ulp accept either index); the Poisson helper must return a feasible segmentation within 1e-9 of the brute-force optimum."),
})

REGISTRY.update({
    "C22": _mc("explicit-state enumeration of diploid inputs x ALL 2^s phase assignments of the singletons x rescaling; locality oracle on mutation nodes and cross-assignment agreement",
               "Every bounded ARG with 2 or 4 samples paired into individuals x mutation patterns (<=7 singletons) x every assignment of each singleton to one of its individual's two nodes x rescaling off/on: unphased runs move only singletons and only to the sibling node, phased runs move nothing, and all assignments give the same dates, posteriors and final placement (1e-9).", _META),
    "C23": _mc("explicit-state enumeration as C22 x match_segregating_sites x intervals; the count array the real rescale step uses is captured by wrapping the module-level reallocate_unphased and compared with an independent per-tree tally plus fitted phase shares",
               "For every input and phase assignment (s<=5) the per-edge mutation counts that variational_gamma's rescaling step actually uses are recomputed from scratch: all other mutations by direct tally, each unphased singleton contributing q to the edge it is finally placed on and 1-q to its sibling's edge; other edges and all spans unchanged."),
})

REGISTRY.update({
    "C19": {"level": "exploration", "technique": "exhaustive enumeration of finite lattices of a continuous domain that contain every branch cut-off of the code (+-0,1,2 ulp); 40-digit mpmath reference and defining-property re-evaluation of each fit",
            "text": "digamma/trigamma on a 1500/6000-point log lattice of [1e-8,1e8] plus all cut-offs, betaln on 1600 pairs, moment fit on 1600 (mean, cv) pairs, KL fit on 5 means x 64-204 shapes incl. the asymptotic switch, quantile fit on 3 quantile pairs x 14 true shapes x 3 rates x 2 caps (capped, uncapped, x1==x2): each returned gamma is re-evaluated against the property it must satisfy.",
            "note": "finite lattice; no claim between lattice points; mpmath and scipy.special.gammaincinv (to construct targets) trusted"},
    "C25": _mc("explicit-state enumeration of inputs x option product; the real rescale step is observed by wrapping the module-level kernels it calls; independent interpolation and direct edge/epoch overlap oracles; complete product of time vectors for mutational_area",
               "Every bounded ARG x mutation menu x internal-sample decorators x intervals {1,2,3,1000} x iterations {1,5} x segsites x max_shape {3,1000}: breakpoints from (0,0) strictly increasing, each new mean the piecewise-linear image of the old one, no order reversal, shape <= cap, samples untouched; mutational_area equals a direct overlap computation on the observed vectors and on all {0.5,1,2,3}^k vectors."),
})

REGISTRY.update({
    "C37": _mc("explicit-state enumeration of inputs (two node numberings) x mutation menu x input time scale x option product; predicate oracle on the returned tree sequence, non-return is a violation",
               "Every bounded ARG x mutation menu (incl. above-root mutations) x time scale {1,1e4} x num_intervals {1,2,100} x num_iterations {1,10} x match_segregating_sites: rescale_tree_sequence must return a valid tree sequence with identical topology, sites and mutation placement, unchanged sample times, a non-decreasing map of non-sample times and every mutation at its branch midpoint."),
})

REGISTRY.update({
    "C35": _mc("explicit-state enumeration of inputs x pathological-input decorators x methods x option menu x return flags, plus the complete menu of single invalid parameters; return-shape / exception-class oracle",
               "Every bounded ARG x 3-5 mutation patterns x 12 decorators (time scales 2^-20..1e12, historical leaf, internal sample, free leaf, isolated sample with and without its own mutation, migrations, unphased diploids, no sites) x 8-10 method/option vectors x return_fit/return_likelihood: each call returns the documented shape or raises ValueError/NotImplementedError with a message; 18 kinds of invalid parameter x methods x return flags are always rejected cleanly."),
})

REGISTRY.update({
    "C29": _mc("explicit-state enumeration of inputs (two numberings) x deleted-locus patterns x mutation placements (one above every node in every tree) x missing-data patterns x node-metadata schemas; per-position tree comparison, genotype, contiguity and idempotence oracles",
               "Every bounded ARG with disjoint nodes (absent in a middle locus) and every ARG with each locus / loci {0,2} deleted x 2 mutation placements x 3 schemas, plus every (sample, locus) isolation with a mutation on the isolated sample: split_disjoint_nodes must return, keep each local tree (copies mapped back), keep ids of leftmost pieces, copy node attributes + split flag + unsplit_node_id, keep sites and genotypes, leave no gapped ancestry and be idempotent."),
})

REGISTRY.update({
    "C28": _mc("explicit-state enumeration of multi-locus inputs x missing-data patterns x every subset of site-bearing loci x option product; genotype / clade-per-position / removed-region / simplification / contiguity oracles",
               "Every bounded multi-locus ARG (coordinates x10, thorough also x2^20) x every non-empty subset of loci carrying sites x (minimum_gap x erase_flanks | delete_intervals as list or ndarray) x split_disjoint x filter_sites, plus every (sample, locus) isolation: kept sites, samples, genotypes and node times preserved; local trees identical outside and empty inside exactly the specified intervals; output already simplified; no gapped ancestry with split_disjoint."),
})

REGISTRY.update({
    "C32": _mc("complete product of 7x7 node/mutation metadata-table states x set_metadata x methods; decision-table oracle with an independent encode/decode probe for 'schema can encode mn/vr'",
               "4 inputs x 49 combinations of table states (no schema, permissive JSON, closed JSON, mn typed string, struct with / without mn,vr, raw bytes) x set_metadata {None,True,False} x 3 methods: untouched / extended-with-other-fields-kept / cleared-and-default-schema exactly as the policy says, a warning whenever a table is skipped, every row carries mn and vr whenever anything is written."),
    "C33": _mc("enumeration of call variants x earlier-record counts x record_provenance, and ALL call chains of length <=3 over four operations; record-count, byte-identity, schema-validation and parameter-echo oracles",
               "3 inputs x {0,1,3} earlier provenance rows x 10 call variants (date with each method, the named methods, preprocess_ts; default and non-default parameters) x record_provenance {None,True,False}, plus all 84 chains of up to three operations: exactly one valid new record per recorded call naming the command and every parameter used, earlier rows byte-identical, nothing added when recording is off."),
    "C34": _mc("complete option product (3 x 2^11 `date` argvs, 56 `preprocess` argvs) executed in-process through cli.tsdate_main with a recording wrapper around the API entry points; expected validity derived from the API contracts",
               "Every presence/absence combination of the 11 `date` options for each method, and every combination of preprocess options incl. boolean values True/False/0 and the --trim_telomeres alias: each given option reaches the API with the value given, the file written equals the API result, and invalid combinations end with a non-zero exit and no output file."),
})

REGISTRY.update({
    "C31": _mc("explicit-state enumeration of inputs x site layouts (incl. sites with nested/parallel recurrent mutations) x node ages from real dating and from the complete product of synthetic mn vectors (every ancestor/descendant inversion) x option product; re-implementation oracle; historical-sample patterns for SampleData",
               "Every bounded ARG x {one mutation per site, all mutations of a locus on one site} + above-root mutations + a monomorphic site, aged by variational_gamma / inside_outside output and by all {0.5,1,2,3}^k mn vectors (k<=4) x node_selection (4) x min_time (3) x unconstrained: site times equal the documented definition; add_sampledata_times on tsinfer SampleData with every single and pair of historical samples equals max(estimate, oldest carrier)."),
})

REGISTRY.update({
    "C18": {"level": "exploration", "technique": "exhaustive enumeration of two finite lattices: a product lattice of cavity / likelihood parameters (support, finiteness, skip and closed-form clauses) and the de-duplicated set of (cavity, likelihood) tuples that real EP runs on the bounded inputs produce (accuracy); reference = analytic reduction to one dimension + mode-split mpmath quadrature with an error gate",
            "text": "All 14 moment functions on 15x15 cavity pairs x 4 counts x 3 spans x 3 fixed ages: skip or finite moments with positive variance and mean inside the support, phases in [0,1], closed forms to 1e-12. Every tuple arising at the EP fixed point on the bounded ARGs x mutation menu x sample decorators x phasing (also damped by 0.9/0.5 as EP's step control does; ~10k tuples quick): returned means within 5% of the numerically integrated tilted moments (observed worst 2%).",
            "note": "finite lattices of a continuous domain; accuracy judged only on parameter ranges EP produces; mpmath quadrature with its own error estimate < 1e-6 gates every comparison"},
})
