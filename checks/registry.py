"""Per-property manifest facts (level, technique, trusted base)."""

HOOK_COMMITS = []
NOT_APPLICABLE = {}

_ARGS = "small-scope hypothesis: ARGs with n<=4-6 samples, L<=3 loci, R<=2 recombinations; tskit, numpy and the brute-force reference model are trusted"

REGISTRY = {
    "C01": {
        "level": "model_checking",
        "technique": "explicit-state enumeration of input ARGs x complete option product, predicate oracle on every execution",
        "text": "Every ARG of the bounded ancestral-recombination transition system, crossed with complete finite menus of mutation placement, time scale, sample-age pattern, method, min_branch_length, constr_iterations and VG options, is dated by the real code and every returned tree sequence is checked edge by edge and mutation by mutation. Exhaustive below the bound, so a violating shape/option pair cannot be missed there; nothing is claimed above it.",
        "note": _ARGS + "; calls that raise are outside C01 and judged by C35",
    },
    "C10": {
        "level": "model_checking",
        "technique": "explicit-state enumeration of single-tree inputs, brute-force reference model of the discretised posterior",
        "text": "All ranked single-tree shapes with polytomies up to 5 (quick) / 6 (thorough) leaves x all {0,1,3}^E mutation vectors (pattern menu for the largest shapes) x grids x priors x both probability spaces are run through inside_outside; posterior marginals and the returned likelihood are compared with exhaustive summation over all grid assignments.",
        "note": "reference sums prior x Poisson over all K^m assignments using math.lgamma; grids of 4 and 6 points; " + _ARGS,
    },
}

def _mc(technique, text, note=_ARGS):
    return {"level": "model_checking", "technique": technique, "text": text, "note": note}


REGISTRY.update({
    "C02": _mc("explicit-state enumeration of inputs x irrelevant-data variants, whole-TableCollection diff oracle with allow-list",
               "Every bounded ARG x mutation menu (recurrent and above-root mutations) x 8 metadata/population/individual/migration/provenance variants x methods x set_metadata x singletons_phased is dated and the complete input and output table collections are diffed against an explicit allow-list; exhaustive below the bound."),
    "C03": _mc("explicit-state enumeration of inputs x every internal-sample / historical-leaf pattern x option product, exact per-sample oracle",
               "Every bounded ARG x every single and pair of internal nodes flagged as sample x historical leaves x min_branch_length {1e-8,0.5,2,5 ranks} x constr_iterations {None,0,1,1000} x methods; each sample's output time must equal max(input, max_child fl(out+mbl)) bit-exactly. Pushes are actually driven (tens of thousands observed per run)."),
    "C04": _mc("explicit-state enumeration of inputs x option product, fit-vs-metadata equality oracle and recomputed grid moments",
               "Every bounded ARG x mutation menu (incl. above-root => NaN posteriors) x H x methods x set_metadata {None,True} x VG option menu / both probability spaces; decoded metadata is compared exactly with the fit object, inside_outside rows are re-normalised and their moments recomputed independently."),
    "C05": _mc("explicit-state enumeration of inputs x complete product of max_iterations, max_shape, rescaling, phasing; predicate oracle on the fit",
               "Every bounded ARG x Mp menu (zero-mutation edges, single-mutation inputs) x H x diploid individuals x {1,2,25} iterations x max_shape {1.5,2,10,1000} x rescaling {off,2,default} x singletons_phased; properness, cap and phase range checked on every fit; the cap is seen binding ~2e5 times per quick run."),
})
