"""Per-property manifest facts (level, technique, trusted base)."""

HOOK_COMMITS = []
NOT_APPLICABLE = {}

_ARGS = "small-scope hypothesis: ARGs with n<=4-6 samples, L<=3 loci, R<=2 recombinations; tskit, numpy and the brute-force reference model are trusted"

REGISTRY = {
    "C01": {
        "level": "model_checking",
        "technique": "explicit-state enumeration of input ARGs x complete option product, predicate oracle on every execution",
        "text": "Every ARG of the bounded ancestral-recombination transition system, crossed with complete finite menus of mutation placement, time scale, sample-age pattern, method, min_branch_length, constr_iterations and VG options, is dated by the real code and every returned tree sequence is checked edge by edge and mutation by mutation. Exhaustive below the bound, so a violating shape/option pair cannot be missed there; nothing is claimed above it.",
        "note": _ARGS + "; calls that raise are outside C01 and judged by C35",
    },
    "C10": {
        "level": "model_checking",
        "technique": "explicit-state enumeration of single-tree inputs, brute-force reference model of the discretised posterior",
        "text": "All ranked single-tree shapes with polytomies up to 5 (quick) / 6 (thorough) leaves x all {0,1,3}^E mutation vectors (pattern menu for the largest shapes) x grids x priors x both probability spaces are run through inside_outside; posterior marginals and the returned likelihood are compared with exhaustive summation over all grid assignments.",
        "note": "reference sums prior x Poisson over all K^m assignments using math.lgamma; grids of 4 and 6 points; " + _ARGS,
    },
}
