"""C11 Discrete-time dating is invariant to node numbering and input time order."""

import itertools
import math

import numpy as np
import tskit

from mc import dating, meta, tsspace
from mc.common import classify_exc, edge_mut_counts, exc_text

PROPERTY = "C11"
LEVEL = "model_checking"
RULE = (
    "one evaluation = one pair (base input, transformed input) dated by inside_outside (linear / logarithmic) or maximization; "
    "transformations enumerated completely per ARG: ALL permutations of the non-sample node ids (<=5 internal nodes: <=120; larger: "
    "all rotations and the reversal), and ALL linear extensions of the ancestor partial order used as new uncalibrated input times, "
    "each also with every adjacent incomparable pair tied and with times x {1e-3, 1e6}. oracle: node times, posterior mean/variance, "
    "mutation times and posterior rows mapped back through the transformation agree to 1e-9; for maximization a difference is accepted "
    "only at a node whose two chosen grid points have objective values within 1e-9 (then its descendants are skipped). "
    "non-trivial = transformation is not the identity; distinct = (input, transformation, method)"
)
ASSUMPTIONS = ["samples at time zero", "small-scope ARGs", "ignore_oldest_root is off (C38 covers it)"]
MU = 0.7


def warmup():
    dating.warmup_all()


def cases(tier, seed):
    sp = tsspace.space(tier)
    out = []
    for a in sp.args:
        if a["nn"] - a["n"] < 2:
            continue
        E = tsspace.arg_ts(a).num_edges
        pats = tsspace.mutation_patterns(E, "Ms")
        pats = pats[1:2] + pats[3:4] if tier == "quick" else pats
        for pn, pat in pats:
            out.append({"arg": a, "mut": pat})
    return {
        "cases": out,
        "states": sp.states,
        "transitions": sp.transitions,
        "bound": f"{sp.describe()} (>=2 internal nodes) x mutation menu x all id permutations x all linear extensions (+ties, x1e-3, x1e6) x {{IO lin, IO log, max log}}",
        "exhaustive": True,
    }


def ancestors(ts):
    N = ts.num_nodes
    anc = [[False] * N for _ in range(N)]  # anc[p][c]
    for p, c in zip(ts.edges_parent, ts.edges_child):
        anc[p][c] = True
    for k in range(N):
        for i in range(N):
            if anc[i][k]:
                for j in range(N):
                    if anc[k][j]:
                        anc[i][j] = True
    return anc


def retime(ts, times):
    t = ts.dump_tables()
    t.nodes.time = np.array(times, float)
    t.mutations.time = np.full(t.mutations.num_rows, tskit.UNKNOWN_TIME)
    t.sort()
    t.build_index()
    t.compute_mutation_parents()
    return t.tree_sequence()


def transformations(ts, n):
    """yield (label, ts', old_id_of_new) -- complete enumeration (see RULE)"""
    N = ts.num_nodes
    inner = list(range(n, N))
    ident = list(range(N))
    if len(inner) <= 5:
        perms = list(itertools.permutations(inner))
    else:
        perms = [tuple(inner[i:] + inner[:i]) for i in range(len(inner))] + [tuple(inner[::-1])]
    for p in perms:
        if list(p) == inner:
            continue
        tsp, order = tsspace.renumber_nodes(ts, list(p))
        yield ("perm", list(p)), tsp, order
    anc = ancestors(ts)
    exts = []
    for p in itertools.permutations(inner) if len(inner) <= 6 else [tuple(inner)]:
        pos = {u: i for i, u in enumerate(p)}
        if all(not anc[a][b] or pos[a] > pos[b] for a in inner for b in inner):
            exts.append(p)
    for p in exts:
        times = np.zeros(N)
        for i, u in enumerate(p):
            times[u] = i + 1
        if list(p) != inner:
            yield ("ext", list(p)), retime(ts, times), ident
        for sc in (1e-3, 1e6):
            yield ("ext_scaled", list(p), sc), retime(ts, times * sc), ident
        for i in range(len(p) - 1):
            a, b = p[i], p[i + 1]
            if not anc[a][b] and not anc[b][a]:
                t2 = times.copy()
                t2[b] = t2[a]
                yield ("ext_tied", list(p), i), retime(ts, t2), ident


def _logpmf(m, lam):
    with np.errstate(divide="ignore", invalid="ignore"):
        return np.where(lam > 0, m * np.log(lam) - lam - math.lgamma(m + 1), np.where(m == 0, 0.0, -np.inf))


def max_objective(ts, fit, u, pidx, space, eps):
    """log objective of node u over grid indices given its parents' chosen indices"""
    grid = np.asarray(fit.lik.timepoints, float)
    mut = edge_mut_counts(ts)
    ins = np.array(fit.inside[u], float)
    with np.errstate(divide="ignore"):
        obj = ins if space == "logarithmic" else np.log(ins)
    pe = [e for e in ts.edges() if e.child == u]
    if not pe:
        return obj
    y = min(pidx[e.parent] for e in pe)
    obj = obj[: y + 1].copy()
    for e in pe:
        obj = obj + _logpmf(mut[e.id], (grid[pidx[e.parent]] - grid[: y + 1] + eps) * MU * e.span)
    return obj


def run(case):
    ts = tsspace.add_mutations(tsspace.arg_ts(case["arg"]), case["mut"])
    n = case["arg"]["n"]
    N = ts.num_nodes
    viol, tags, keys = [], {}, []
    evals = 0
    plans = [("inside_outside", {"probability_space": "linear"}), ("inside_outside", {"probability_space": "logarithmic"}), ("maximization", {"probability_space": "logarithmic"})]
    base = [meta.outputs(m, ts, MU, cfg, popsize=1.0) for m, cfg in plans]
    anc = ancestors(ts)
    for label, tsv, order in transformations(ts, n):
        back = np.array(order)  # new id -> old id
        # mutations: same (site position, node) identity; map by position+old node
        for (method, cfg), (okb, b) in zip(plans, base):
            if not okb:
                tags[f"base_no_return:{method}:{classify_exc(b)}"] = 1
                continue
            evals += 1
            oko, o = meta.outputs(method, tsv, MU, cfg, popsize=1.0)
            sub = {"transformation": list(label), "method": method, "cfg": cfg}
            keys.append(f"{case['arg']['id']}|{case['mut']}|{label}|{method}|{cfg}")
            if not oko:
                viol.append({"kind": "transformed_input_fails", "msg": exc_text(o), "facts": {"exc": type(o).__name__}, "sub": sub})
                continue
            # map node-indexed outputs back to the base numbering
            inv = np.empty(N, dtype=int)
            inv[back] = np.arange(N)  # old id -> new id
            diffs = []
            for f in ("t", "mn", "vr"):
                e = meta.maxrel(b[f], np.asarray(o[f])[inv])
                if not e <= 1e-9:
                    diffs.append((f, e))
            if method == "inside_outside":
                for u, row in b["grid"].items():
                    e = meta.maxrel(row / row.sum(), o["grid"][int(inv[u])] / o["grid"][int(inv[u])].sum())
                    if not e <= 1e-7:
                        diffs.append((f"grid[{u}]", e))
                        break
            if not diffs:
                continue
            if method == "maximization":
                # tie rule: oldest differing node must be an objective tie
                bi = {u: int(np.argmin(np.abs(b["tp0"] - b["mn"][u]))) for u in range(n, N)} if "tp0" in b else None
                grid = np.asarray(b["fit"].lik.timepoints, float)
                bidx = {u: int(np.argmin(np.abs(grid - b["mn"][u]))) for u in range(n, N)}
                oidx = {u: int(np.argmin(np.abs(grid - np.asarray(o["mn"])[inv][u]))) for u in range(n, N)}
                differing = [u for u in range(n, N) if bidx[u] != oidx[u]]
                tops = [u for u in differing if not any(anc[v][u] for v in differing)]
                explained = bool(differing)
                for u in tops:
                    obj = max_objective(ts, b["fit"], u, bidx, cfg["probability_space"], 1e-8)
                    i, j = bidx[u], oidx[u]
                    if j >= len(obj) or not abs(obj[i] - obj[j]) <= 1e-9 * max(1.0, abs(obj[i])):
                        explained = False
                if explained:
                    tags["maximization_ties_broken_differently"] = tags.get("maximization_ties_broken_differently", 0) + 1
                    continue
            viol.append({"kind": "not_invariant", "msg": f"{label}: {diffs}", "facts": {"method": method, "kind_of_transformation": label[0]}, "sub": sub})
    return {"evals": evals, "viol": viol, "tags": tags, "keys": keys}
