"""C14 Conditional coalescent prior moments are exact.

Three layers, each validated by the one before:
 (i)  explicit-state exploration of the n-coalescent jump chain on integer
      partitions (exact rationals): E[#clades of size k created when a lineages
      remain] -> mean/variance of the age of a node with k of n descendants;
 (ii) the closed form it validates, P(a|k,n) ~ C(n-k-1,a-2)/C(n-1,a), in exact
      rationals (n <= 40) and in 80-bit floats (all n up to the bound);
 (iii) tsdate's ConditionalCoalescentTimes[n] rows for every (n,k), both
      distributions.
"""

import collections
from fractions import Fraction as F
from math import comb

import numpy as np

PROPERTY = "C14"
LEVEL = "model_checking"
RULE = (
    "one evaluation = one (n,k,distribution) row of ConditionalCoalescentTimes compared with the exact reference "
    "(mean, var to 1e-10 rel; alpha,beta to 1e-9 rel against the moment-matching formulas applied to the reference moments); "
    "reference = partition-chain exploration (states = partitions, transitions = mergers) == closed form in rationals == closed form "
    "in long double. every (n,k) pair is distinct and non-trivial (k>=2)"
)
ASSUMPTIONS = ["Kingman coalescent, time in units of 2N generations", "long double closed form is trusted above n=40 after exact validation below"]
NEEDS_TSDATE = True


def chain(n):
    """explicit-state jump chain on partitions; returns (states, transitions, cnt[(k,a)])"""
    start = tuple([1] * n)
    dist = {start: F(1)}
    cnt = collections.defaultdict(F)
    states, transitions = 1, 0
    for a in range(n - 1, 0, -1):
        new = collections.defaultdict(F)
        for part, p in dist.items():
            m = len(part)
            pairs = m * (m - 1) // 2
            # group identical block sizes: transitions enumerated per unordered pair of blocks
            for i in range(m):
                for j in range(i + 1, m):
                    k = part[i] + part[j]
                    q = tuple(sorted(part[:i] + part[i + 1 : j] + part[j + 1 :] + (k,)))
                    new[q] += p * F(1, pairs)
                    cnt[(k, a)] += p * F(1, pairs)
                    transitions += 1
        dist = new
        states += len(dist)
    return states, transitions, cnt


def hypo(n):
    """mean[a], var[a] of the time until a lineages remain, exact"""
    mean = {n: F(0)}
    var = {n: F(0)}
    for a in range(n - 1, 0, -1):
        r = F(2, (a + 1) * a)
        mean[a] = mean[a + 1] + r
        var[a] = var[a + 1] + r * r
    return mean, var


def closed_exact(n, k, mean, var):
    if k == n:
        return mean[1], var[1]
    w = {a: F(comb(n - k - 1, a - 2), comb(n - 1, a)) for a in range(2, n - k + 2)}
    Z = sum(w.values())
    m1 = m2 = F(0)
    for a, p in w.items():
        m1 += p / Z * mean[a]
        m2 += p / Z * (var[a] + mean[a] ** 2)
    return m1, m2 - m1**2


def closed_ld(n):
    """closed form for all k in long double; returns mean[k], var[k] arrays (index k)"""
    ld = np.longdouble
    j = np.arange(2, n + 1, dtype=ld)
    r = ld(2) / (j * (j - 1))  # rate^-1 while j lineages
    # mean_a = sum_{j=a+1..n} r_j
    cm = np.concatenate([np.cumsum(r[::-1])[::-1], [ld(0)]])  # cm[i] = sum_{j=i+2..n}
    cv = np.concatenate([np.cumsum((r * r)[::-1])[::-1], [ld(0)]])
    mean_a = lambda a: cm[a - 1]  # noqa: E731  sum_{j=a+1..n}
    var_a = lambda a: cv[a - 1]  # noqa: E731
    M = np.full(n + 1, np.nan, dtype=ld)
    V = np.full(n + 1, np.nan, dtype=ld)
    for k in range(2, n):
        a = np.arange(2, n - k + 2)
        # w_{a+1}/w_a = (n-k-a+1)(a+1) / ((a-1)(n-1-a))
        ratio = (ld(1) * (n - k - a[:-1] + 1) * (a[:-1] + 1)) / ((a[:-1] - 1) * (n - 1 - a[:-1]).astype(ld))
        w = np.concatenate([[ld(1)], np.cumprod(ratio)])
        w = w / w.sum()
        ma = cm[a - 1]
        va = cv[a - 1]
        m1 = np.sum(w * ma)
        m2 = np.sum(w * (va + ma * ma))
        M[k] = m1
        V[k] = m2 - m1 * m1
    M[n] = mean_a(1)
    V[n] = var_a(1)
    return M, V


def cases(tier, seed):
    nmax = 300 if tier == "quick" else 1000
    cmax = 14 if tier == "quick" else 20
    out = [{"kind": "chain", "n": n} for n in range(2, cmax + 1)]
    out += [{"kind": "exact", "n": n} for n in range(2, 41)]
    # stripes of n so that each worker has similar work
    ns = list(range(2, nmax + 1))
    # the exact prior is the default below 10 000 samples: a lattice of large n on top of the complete range
    # (linear-space underflow of Pr(a|k,n) ~ 2^-n starts near n = 1030..1100)
    big = [400, 600, 800, 1000, 1030, 1070, 1100, 1200, 1500, 2000]
    if tier != "quick":
        big = list(range(1010, 1201, 10)) + list(range(1300, 3001, 100)) + [4000, 5000]
    ns += [n for n in big if n > nmax]
    for n in ns:
        out.append({"kind": "tsdate", "n": n})
    out.sort(key=lambda c: -c["n"] if c["kind"] != "chain" else -c["n"] * 50)
    return {
        "cases": out,
        "states": 0,
        "transitions": 0,
        "bound": f"partition chain n<={cmax}; exact rationals n<=40; every (n,k) with 2<=k<=n<={nmax}, plus every k for n in {[n for n in big if n > nmax]}; lognorm and gamma",
        "exhaustive": True,
    }


def run(case):
    from tsdate import prior

    n = case["n"]
    viol, tags, keys = [], {}, []
    evals = 0
    if case["kind"] == "chain":
        st, tr, cnt = chain(n)
        mean, var = hypo(n)
        for k in range(2, n + 1):
            Z = sum(cnt[(k, a)] for a in range(1, n))
            m1 = m2 = F(0)
            for a in range(1, n):
                p = cnt[(k, a)] / Z
                if p:
                    m1 += p * mean[a]
                    m2 += p * (var[a] + mean[a] ** 2)
            cm, cv = closed_exact(n, k, mean, var)
            evals += 1
            if cm != m1 or cv != m2 - m1**2:
                viol.append({"kind": "reference_chain_vs_closed_form", "msg": f"n={n} k={k}", "facts": {}})
        tags["mc_states"] = st
        tags["mc_transitions"] = tr
        return {"evals": evals, "viol": viol, "tags": tags, "keys": keys}
    if case["kind"] == "exact":
        mean, var = hypo(n)
        M, V = closed_ld(n)
        for k in range(2, n + 1):
            cm, cv = closed_exact(n, k, mean, var)
            evals += 1
            if abs(float(M[k]) - float(cm)) > 1e-15 * float(cm) * 4 or abs(float(V[k]) - float(cv)) > 1e-14 * float(cv):
                viol.append({"kind": "reference_longdouble_vs_exact", "msg": f"n={n} k={k}: {M[k]!r} vs {float(cm)!r}; {V[k]!r} vs {float(cv)!r}", "facts": {}})
        return {"evals": evals, "viol": viol, "tags": tags, "keys": keys}
    M, V = closed_ld(n)
    worst = 0.0
    for dist in ("lognorm", "gamma"):
        c = prior.ConditionalCoalescentTimes(None, dist)
        c.add(n)
        rows = c[n]
        for k in range(2, n + 1):
            evals += 1
            al, be, mn, vr = (float(x) for x in rows[k])
            rm, rv = float(M[k]), float(V[k])
            e1 = abs(mn - rm) / rm
            e2 = abs(vr - rv) / rv
            worst = max(worst, e1, e2)
            tol = 1e-10 if n <= 1000 else 1e-8  # double-precision log-space recursion of depth n
            if not (e1 <= tol and e2 <= tol):
                viol.append(
                    {"kind": "moment_mismatch", "msg": f"n={n} k={k} {dist}: mean {mn!r} vs {rm!r} (rel {e1:.2e}); var {vr!r} vs {rv!r} (rel {e2:.2e})", "facts": {"dist": dist}}
                )
            if dist == "lognorm":
                rb = float(np.log(V[k] / (M[k] * M[k]) + 1))
                ra = float(np.log(M[k]) - 0.5 * np.log(V[k] / (M[k] * M[k]) + 1))
            else:
                ra = float(M[k] * M[k] / V[k])
                rb = float(M[k] / V[k])
            ea = abs(al - ra) / max(abs(ra), 1e-3)
            eb = abs(be - rb) / max(abs(rb), 1e-300)
            if not (ea <= 10 * tol and eb <= 10 * tol):
                viol.append({"kind": "parameter_mismatch", "msg": f"n={n} k={k} {dist}: alpha {al!r} vs {ra!r}; beta {be!r} vs {rb!r}", "facts": {"dist": dist}})
            keys.append(f"{n},{k},{dist}")
        # row 1: a "coalescence node" ending in one sample has mean=var=0
        if not (rows[1][2] == 0 and rows[1][3] == 0):
            viol.append({"kind": "row1_not_zero", "msg": f"n={n} {dist}", "facts": {}})
    return {"evals": evals, "viol": viol, "tags": tags, "keys": keys, "worst": worst}


def finalize(results, cases):
    w = max((r.get("worst", 0.0) for r in results), default=0.0)
    print(f"    worst relative error tsdate vs reference: {w:.3e}")
    st = sum(r["tags"].get("mc_states", 0) for r in results)
    tr = sum(r["tags"].get("mc_transitions", 0) for r in results)
    print(f"    partition chain: states={st} transitions={tr}")
    return []
