"""C22 Unphased singleton handling only re-phases singletons and ignores input phase."""

import itertools

import numpy as np
import tskit

from mc import dating, meta, tsspace
from mc.common import call, classify_exc, exc_text

PROPERTY = "C22"
LEVEL = "model_checking"
RULE = (
    "inputs = bounded ARGs with n in {2,4} samples paired into contemporary diploid individuals x mutation patterns with >=1 singleton "
    "x ALL 2^s assignments of the s singletons (s<=7) to one of their individual's two nodes x rescaling {off, 2 intervals, 2 intervals matching segregating sites}. oracle: "
    "(i) with singletons_phased=False an output mutation's node differs from the input's only for mutations on individuals' nodes and only "
    "by moving to the sibling node; (ii) with singletons_phased=True no mutation node changes; (iii) all phase assignments of one input "
    "give the same node times, posterior moments, mutation times and final mutation placement (1e-9). one evaluation = one dating call; "
    "non-trivial = a run in which some singleton moved, or an assignment other than the first; distinct = (input, assignment, options)"
)
ASSUMPTIONS = ["one mutation per site (so mutations are identified by site)", "small-scope ARGs"]


def warmup():
    dating.warmup_all()


def cases(tier, seed):
    sp = tsspace.space(tier)
    out = []
    for a in sp.args:
        if a["n"] not in (2, 4):
            continue
        ts = tsspace.arg_ts(a)
        E = ts.num_edges
        leaf = [int(e.child < a["n"]) for e in ts.edges()]
        pats = [("ones", [1] * E), ("leaf2", [2 if l else 1 for l in leaf]), ("mod3b", [(i + 1) % 3 for i in range(E)])]
        if tier == "quick":
            pats = pats[:2]
        for pn, pat in pats:
            s = sum(c for c, l in zip(pat, leaf) if l)
            if 1 <= s <= 7:
                out.append({"arg": a, "mut": pat, "s": s})
    return {"cases": out, "states": sp.states, "transitions": sp.transitions, "bound": f"{sp.describe()} with n in (2,4) x mutation patterns (<=7 singletons) x all 2^s phase assignments x rescaling off/2", "exhaustive": True}


def rephase(ts, flips):
    t = ts.dump_tables()
    node = t.mutations.node.copy()
    k = 0
    for m in ts.mutations():
        nd = ts.node(m.node)
        if nd.is_sample() and nd.individual >= 0:
            if flips[k]:
                a, b = ts.individual(nd.individual).nodes
                node[m.id] = b if m.node == a else a
            k += 1
    t.mutations.node = node
    t.mutations.time = np.full(t.mutations.num_rows, tskit.UNKNOWN_TIME)
    t.sort()
    t.build_index()
    t.compute_mutation_parents()
    return t.tree_sequence()


def run(case):
    ts0 = dating.add_individuals(tsspace.add_mutations(tsspace.arg_ts(case["arg"]), case["mut"]))
    viol, tags, keys = [], {}, []
    evals = 0
    cid = f"{case['arg']['id']}|{case['mut']}"
    for resc, seg in ((0, False), (2, False), (2, True)):
        base = None
        for flips in itertools.product((0, 1), repeat=case["s"]):
            ts = rephase(ts0, flips)
            sub = {"flips": list(flips), "rescaling_intervals": resc, "match_segregating_sites": seg}
            evals += 1
            ok, o = meta.outputs("variational_gamma", ts, 1.0, {"rescaling_intervals": resc, "singletons_phased": False, "match_segregating_sites": seg})
            if not ok:
                k = f"no_return:{classify_exc(o)}"
                tags[k] = tags.get(k, 0) + 1
                if base is not None and base != "fail":
                    viol.append({"kind": "phase_assignment_changes_success", "msg": exc_text(o), "facts": {}, "sub": sub})
                base = base or "fail"
                continue
            out = o["ts"]
            site_in = {m.site: m.node for m in ts.mutations()}
            site_out = {m.site: m.node for m in out.mutations()}
            moved = 0
            for s_, u in site_in.items():
                v = site_out[s_]
                if v != u:
                    nd = ts.node(u)
                    if nd.individual < 0 or v not in ts.individual(nd.individual).nodes or v == u:
                        viol.append({"kind": "non_singleton_mutation_moved", "msg": f"site {s_}: node {u} -> {v}", "facts": {}, "sub": sub})
                    moved += 1
            tags["singletons_moved"] = tags.get("singletons_moved", 0) + moved
            # compare across assignments: identify mutations by site
            order_out = np.argsort([m.site for m in out.mutations()])
            order_fit = np.argsort(ts.mutations_site)
            cur = {
                "t": o["t"], "mn": o["mn"], "vr": o["vr"],
                "mt": np.asarray(o["mt"])[order_out], "mmn": np.asarray(o["mmn"])[order_fit], "mvr": np.asarray(o["mvr"])[order_fit],
                "place": tuple(site_out[s_] for s_ in sorted(site_out)),
            }
            if base is None:
                base = cur
            elif base == "fail":
                viol.append({"kind": "phase_assignment_changes_success", "msg": "first assignment failed, this one returns", "facts": {}, "sub": sub})
            else:
                d = meta.compare(base, cur, 1e-9)
                if d or base["place"] != cur["place"]:
                    viol.append({"kind": "output_depends_on_input_phase", "msg": f"{d} placement {base['place']} vs {cur['place']}", "facts": {}, "sub": sub})
            if moved or any(flips):
                keys.append(f"{cid}|{sub}")
            # phased run: nothing moves
            if resc == 0:
                evals += 1
                ok, res = call(dating.method_call, "variational_gamma", ts, 1.0, {"rescaling_intervals": 0})
                if ok and {m.site: m.node for m in res.mutations()} != site_in:
                    viol.append({"kind": "mutation_moved_when_phased", "msg": "", "facts": {}, "sub": sub})
    return {"evals": evals, "viol": viol, "tags": tags, "keys": keys}
