"""C33 Provenance records each call exactly once."""

import itertools
import json

import numpy as np
import tskit

from mc import dating, tsspace
from mc.common import call, classify_exc, exc_text

PROPERTY = "C33"
LEVEL = "model_checking"
RULE = (
    "inputs with 0 / 1 / 3 earlier provenance rows x {date() with each method, the three named methods, preprocess_ts} x parameter menu "
    "(non-default values for every recorded parameter) x record_provenance {None, True, False}, and ALL call chains of length <=3 over "
    "{preprocess_ts, date(variational_gamma), date(inside_outside), maximization} (operation sequences). oracle: recording on -> exactly one "
    "new row, earlier rows byte-identical and in order; the new record validates against the tskit provenance schema, software.name == "
    "'tsdate', parameters.command == the method name or 'preprocess_ts', and every parameter the call was given (and every method default "
    "it documents) appears with the value used; recording off -> provenance table byte-identical. one evaluation = one call (or one chain "
    "step); non-trivial = input with earlier rows or non-default parameters; distinct = all"
)
ASSUMPTIONS = ["timestamps / resources / environment are not compared", "small inputs"]


def warmup():
    dating.warmup_all()


def cases(tier, seed):
    sp = tsspace.space("quick")
    picks = [sp.args[2], sp.args[len(sp.args) // 2], sp.args[-2]]
    out = []
    for a, prior_rows in itertools.product(picks, (0, 1, 3)):
        out.append({"arg": a, "rows": prior_rows, "part": "single"})
    for a in picks[:2]:
        for first, second in itertools.product(range(4), range(4)):
            out.append({"arg": a, "rows": 1, "part": "chains", "first": first, "second": second})
    return {"cases": out, "states": len(out), "transitions": len(out), "bound": "3 inputs x {0,1,3} earlier rows x 16 call variants x record_provenance (3); all 84 call chains of length <=3 on 2 inputs", "exhaustive": True}


def with_rows(ts, k):
    t = ts.dump_tables()
    for i in range(k):
        t.provenances.add_row(record=json.dumps({"schema_version": "1.0.0", "software": {"name": f"earlier{i}", "version": "0"}, "parameters": {"i": i}, "environment": {}}), timestamp=f"200{i}-01-01T00:00:00")
    return t.tree_sequence()


def variants():
    import tsdate

    hist = {"population_size": [2.0, 5.0], "time_breaks": [3.0]}
    V = [
        ("date:vg", lambda ts, **k: tsdate.date(ts, mutation_rate=0.7, **k), "variational_gamma", {"mutation_rate": 0.7}),
        ("date:vg+", lambda ts, **k: tsdate.date(ts, mutation_rate=0.7, method="variational_gamma", max_iterations=3, rescaling_intervals=2, rescaling_iterations=1, match_segregating_sites=True, max_shape=50.0, regularise_roots=False, time_units="years", **k), "variational_gamma",
         {"mutation_rate": 0.7, "max_iterations": 3, "rescaling_intervals": 2, "rescaling_iterations": 1, "match_segregating_sites": True, "max_shape": 50.0, "regularise_roots": False, "time_units": "years", "singletons_phased": True}),
        ("vg:named", lambda ts, **k: tsdate.variational_gamma(ts, mutation_rate=0.3, rescaling_intervals=0, **k), "variational_gamma", {"mutation_rate": 0.3, "rescaling_intervals": 0, "max_iterations": 25}),
        ("date:io", lambda ts, **k: tsdate.date(ts, mutation_rate=0.7, method="inside_outside", population_size=3.0, **k), "inside_outside", {"mutation_rate": 0.7, "population_size": 3.0, "eps": 1e-8, "probability_space": "logarithmic", "outside_standardize": True, "ignore_oldest_root": False}),
        ("io:named+", lambda ts, **k: tsdate.inside_outside(ts, mutation_rate=0.7, population_size=hist, eps=1e-3, probability_space="linear", ignore_oldest_root=True, outside_standardize=False, num_threads=1, **k), "inside_outside",
         {"mutation_rate": 0.7, "population_size": hist, "eps": 1e-3, "probability_space": "linear", "ignore_oldest_root": True, "outside_standardize": False, "num_threads": 1}),
        ("date:max", lambda ts, **k: tsdate.date(ts, mutation_rate=0.7, method="maximization", population_size=3.0, eps=0.01, **k), "maximization", {"mutation_rate": 0.7, "population_size": 3.0, "eps": 0.01, "probability_space": "logarithmic"}),
        ("max:named", lambda ts, **k: tsdate.maximization(ts, mutation_rate=0.2, population_size=1.0, probability_space="linear", **k), "maximization", {"mutation_rate": 0.2, "population_size": 1.0, "probability_space": "linear"}),
        ("preprocess", lambda ts, **k: tsdate.preprocess_ts(ts, **k), "preprocess_ts", {"split_disjoint": True, "filter_sites": False, "filter_populations": False, "filter_individuals": False, "erase_flanks": True}),
        ("preprocess+", lambda ts, **k: tsdate.preprocess_ts(ts, minimum_gap=0.4, erase_flanks=False, split_disjoint=False, filter_sites=True, **k), "preprocess_ts", {"minimum_gap": 0.4, "erase_flanks": False, "split_disjoint": False, "filter_sites": True}),
        ("preprocess:iv", lambda ts, **k: tsdate.preprocess_ts(ts, delete_intervals=[[0.0, 0.1]], **k), "preprocess_ts", {"delete_intervals": [[0.0, 0.1]]}),
    ]
    return V


def check_new_record(rec, command, params, bad):
    try:
        tskit.validate_provenance(rec)
    except Exception as e:  # noqa: BLE001
        bad("record_does_not_validate", exc_text(e))
        return
    if rec.get("software", {}).get("name") != "tsdate":
        bad("software_name_wrong", str(rec.get("software")))
    p = rec.get("parameters", {})
    if p.get("command") != command:
        bad("command_wrong", f"{p.get('command')!r} instead of {command!r}")
    for k, v in params.items():
        if k not in p:
            bad("parameter_not_recorded", f"{k} (expected {v!r}); recorded keys {sorted(p)}")
        elif p[k] != v and not (isinstance(v, float) and isinstance(p[k], (int, float)) and float(p[k]) == v):
            bad("parameter_value_wrong", f"{k}: recorded {p[k]!r}, used {v!r}")


def run(case):
    import tsdate

    a = case["arg"]
    ts0 = tsspace.add_mutations(tsspace.arg_ts(a), [1 + (i % 2) for i in range(tsspace.arg_ts(a).num_edges)])
    ts0 = with_rows(ts0, case["rows"])
    viol, tags, keys = [], {}, []
    evals = 0

    def mk_bad(sub):
        def bad(kind, msg):
            viol.append({"kind": kind, "msg": msg, "facts": {"call": sub.get("call")}, "sub": sub})

        return bad

    def judge(ts_in, out, rp, command, params, sub):
        bad = mk_bad(sub)
        pin, pout = ts_in.tables.provenances, out.tables.provenances
        if rp is False:
            if not pin.equals(pout):
                bad("provenance_changed_with_recording_off", f"{pin.num_rows} -> {pout.num_rows} rows")
            return
        if pout.num_rows != pin.num_rows + 1:
            bad("not_exactly_one_new_record", f"{pin.num_rows} -> {pout.num_rows} rows")
            return
        for i in range(pin.num_rows):
            if pin[i] != pout[i]:
                bad("earlier_record_changed", f"row {i}")
                return
        try:
            rec = json.loads(pout[pout.num_rows - 1].record)
        except Exception as e:  # noqa: BLE001
            bad("record_not_json", exc_text(e))
            return
        check_new_record(rec, command, params, bad)

    V = variants()
    if case["part"] == "single":
        for (name, fn, command, params), rp in itertools.product(V, (None, True, False)):
            evals += 1
            kw = {} if rp is None else {"record_provenance": rp}
            ok, out = call(fn, ts0, **kw)
            sub = {"call": name, "record_provenance": rp}
            if not ok:
                if classify_exc(out) != "clean":
                    viol.append({"kind": "call_raises", "msg": exc_text(out, 200), "facts": {"call": name, "exc": type(out).__name__}, "sub": sub})
                else:
                    tags["clean_rejections"] = tags.get("clean_rejections", 0) + 1
                continue
            judge(ts0, out, rp, command, params, sub)
            if case["rows"] or "+" in name:
                keys.append(f"{a['id']}|{case['rows']}|{name}|{rp}")
        return {"evals": evals, "viol": viol, "tags": tags, "keys": keys}
    # chains: every sequence of length <= 3 over four operations, alternating recording on/off by position
    ops = [V[7], V[2], V[3], V[6]]
    for L in (1, 2, 3):
        for seq in itertools.product(range(4), repeat=L):
            if seq[0] != case["first"] or (L > 1 and seq[1] != case["second"]) or (L == 1 and case["second"] != 0):
                continue
            cur = ts0
            for step, i in enumerate(seq):
                name, fn, command, params = ops[i]
                rp = None if (step + sum(seq)) % 3 else False
                evals += 1
                tags["mc_states"] = tags.get("mc_states", 0) + 1
                tags["mc_transitions"] = tags.get("mc_transitions", 0) + 1
                ok, out = call(fn, cur, **({} if rp is None else {"record_provenance": rp}))
                sub = {"call": name, "chain": [ops[j][0] for j in seq], "step": step, "record_provenance": rp}
                if not ok:
                    if classify_exc(out) != "clean":
                        viol.append({"kind": "call_raises", "msg": exc_text(out, 200), "facts": {"call": name, "exc": type(out).__name__}, "sub": sub})
                    break
                judge(cur, out, rp, command, params, sub)
                cur = out
            if L > 1:
                keys.append(f"{a['id']}|chain{seq}")
    return {"evals": evals, "viol": viol, "tags": tags, "keys": keys}
