"""C36 The precomputed prior cache is crash-safe and exact.

Two explorers on the REAL code (prior.ConditionalCoalescentTimes(n) -> np.savetxt / np.genfromtxt),
through the I/O seam of mc/vfs.py:

  crash     op log of one real writer run -> every prefix of the log x every byte cut of the in-flight
            write is materialised in a fresh directory; real readers are then run on it.
  schedule  2 (exhaustive) or 3 (preemption-bounded) concurrent callers, starting from the empty cache
            and from every distinct crash state, every interleaving of their file-system operations.
"""

import itertools
import logging
import os
import shutil
import tempfile

import numpy as np

from mc import sched, vfs

PROPERTY = "C36"
LEVEL = "model_checking"
RULE = (
    "crash: one evaluation = (table size n, raw write granularity, crash point = prefix of the writer's op log + byte cut of the "
    "in-flight write) -> two successive real ConditionalCoalescentTimes(n) calls on the materialised directory must both return and "
    "hold approx_priors bit-identical to the freshly computed table. schedule: one evaluation = one complete interleaving of the "
    "file-system operations of k concurrent callers (k=2 all interleavings up to the preemption bound stated, k=3 bound 2) from the "
    "empty cache or from a crash state; every caller and a later fresh caller must hold the exact table. the harness's file-system "
    "model is validated on every run (model(final op log) == real directory). non-trivial = crash point inside a write / schedule "
    "with >=1 preemption; distinct = distinct directory states / distinct schedules"
)
ASSUMPTIONS = [
    "process-crash semantics: completed system calls are durable, user-space buffers are lost; no power-loss reordering",
    "threads stand in for processes: the cache code shares no in-memory state between callers (each builds its own object)",
    "raw write granularity {whole buffer, 64 bytes, 16 bytes} via POSIX short writes",
]
SERIAL = False


def warmup():
    from tsdate import prior

    d = tempfile.mkdtemp(prefix="c36warm_")
    os.environ["XDG_CACHE_HOME"] = d
    prior.ConditionalCoalescentTimes(5)
    shutil.rmtree(d, ignore_errors=True)


def cases(tier, seed):
    out = []
    ns = [2, 3, 10] if tier == "quick" else [2, 3, 10, 25, 60]
    for n in ns:
        for chunk in (None, 64, 16):
            out.append({"kind": "crash", "n": n, "chunk": chunk})
    out.append({"kind": "sched", "n": 4, "actors": 2, "bound": 3 if tier == "quick" else 6, "chunk": None, "from": "empty"})
    out.append({"kind": "sched", "n": 4, "actors": 2, "bound": 2 if tier == "quick" else 3, "chunk": 64, "from": "empty"})
    out.append({"kind": "sched", "n": 3, "actors": 3, "bound": 1 if tier == "quick" else 2, "chunk": None, "from": "empty"})
    out.append({"kind": "sched", "n": 4, "actors": 2, "bound": 1 if tier == "quick" else 2, "chunk": None, "from": "crash"})
    return {
        "cases": out,
        "states": 0,
        "transitions": 0,
        "bound": f"crash: n in {ns} x write granularity {{whole,64,16}} x every log prefix x every byte cut; schedules: see cases (preemption bounds per scenario)",
        "exhaustive": True,
    }


def caller(n):
    from tsdate import prior

    def body():
        c = prior.ConditionalCoalescentTimes(n)
        return np.array(c.approx_priors, copy=True)

    return body


def reference(n, scratch):
    d = tempfile.mkdtemp(prefix="ref_", dir=scratch)
    os.environ["XDG_CACHE_HOME"] = d
    return caller(n)()


def same(a, b):
    a, b = np.asarray(a), np.asarray(b)
    return a.shape == b.shape and bool(np.array_equal(a, b))


def writer_log(n, chunk, scratch):
    d = tempfile.mkdtemp(prefix="w_", dir=scratch)
    os.environ["XDG_CACHE_HOME"] = d
    shim = vfs.Shim(d, write_chunk=chunk)
    with shim:
        caller(n)()
    return shim.log, d


def run(case):
    logging.disable(logging.CRITICAL)
    scratch = tempfile.mkdtemp(prefix="c36_")
    try:
        return _run(case, scratch)
    finally:
        shutil.rmtree(scratch, ignore_errors=True)


def _run(case, scratch):
    n = case["n"]
    viol, tags, keys = [], {}, []
    evals = 0
    ref = reference(n, scratch)
    if ref.shape != (n, 2):
        viol.append({"kind": "reference_shape", "msg": f"{ref.shape}", "facts": {}})
    log, wdir = writer_log(n, case.get("chunk"), scratch)
    # conformance of the file-system model with the real directory
    model = vfs.apply_ops({}, log)
    real = vfs.snapshot(wdir)
    if model != real:
        viol.append({"kind": "harness_fs_model_differs_from_real_directory", "msg": f"model {sorted(model)} real {sorted(real)}", "facts": {}})
        return {"evals": 1, "viol": viol, "tags": tags, "keys": keys}
    tags["writer_ops"] = len(log)
    tags["writer_uses_replace"] = int(any(r["op"] == "replace" for r in log))
    states = list(vfs.crash_states(log))

    if case["kind"] == "crash":
        for (i, cut), files in states:
            evals += 1
            tags["mc_states"] = tags.get("mc_states", 0) + 1
            tags["mc_transitions"] = tags.get("mc_transitions", 0) + 1
            d = tempfile.mkdtemp(prefix="s_", dir=scratch)
            vfs.materialize(files, d)
            os.environ["XDG_CACHE_HOME"] = d
            sub = {"crash_after_ops": i, "byte_cut": cut, "op": (log[i]["op"] if i < len(log) else "end"), "files": {k: len(v) for k, v in files.items()}}
            final_names = [k for k in files if k.endswith(".txt")]
            for attempt in (1, 2):
                try:
                    got = caller(n)()
                except Exception as e:  # noqa: BLE001
                    viol.append({"kind": "reader_raises_after_crash", "msg": f"attempt {attempt}: {type(e).__name__}: {str(e)[:200]}", "facts": {"torn_final_file": bool(final_names)}, "sub": sub})
                    break
                if not same(got, ref):
                    viol.append({"kind": "truncated_table_silently_used", "msg": f"attempt {attempt}: table shape {np.asarray(got).shape} (expected {ref.shape})" + (f", first differing entry {np.asarray(got)[np.asarray(got) != ref][:1].tolist()} vs {ref[np.asarray(got) != ref][:1].tolist()}" if np.asarray(got).shape == ref.shape else ""), "facts": {"torn_final_file": bool(final_names)}, "sub": sub})
                    break
            if cut is not None:
                keys.append(f"{n}|{case.get('chunk')}|{i}|{cut}")
            shutil.rmtree(d, ignore_errors=True)
        return {"evals": evals, "viol": viol, "tags": tags, "keys": keys}

    # ---------------------------------------------------------------- schedules
    starts = [("empty", {})]
    if case["from"] == "crash":
        starts = [(f"crash{i}/{cut}", files) for (i, cut), files in states if files]
        starts = starts[:: max(1, len(starts) // 12)]  # a spread of distinct crash states (all when few)
    for sname, files in starts:
        counter = itertools.count()

        def make_bodies():
            d = os.path.join(scratch, f"x{case['actors']}_{sname.replace('/', '_')}_{next(counter)}")
            vfs.materialize(files, d)
            os.makedirs(d, exist_ok=True)
            os.environ["XDG_CACHE_HOME"] = d
            shim = vfs.Shim(d, write_chunk=case.get("chunk"))
            ctx = {"dir": d, "shim": shim}

            def attach(ex):
                shim.hook = ex.point
                shim.install()

            def detach():
                shim.uninstall()

            ctx["attach"], ctx["detach"] = attach, detach
            return [caller(n) for _ in range(case["actors"])], ctx

        def check(ex, ctx):
            out = []
            sub = {"start": sname, "actors": case["actors"], "ops": [f"{r['thread']}:{r['op']}" for r in ctx["shim"].log]}
            outcome = []
            for i in range(case["actors"]):
                if ex.errors[i] is not None:
                    e = ex.errors[i]
                    out.append({"kind": "concurrent_caller_raises", "msg": f"actor {i}: {type(e).__name__}: {str(e)[:200]}", "facts": {"start": "empty" if sname == "empty" else "crash"}, "sub": sub})
                    outcome.append("raise")
                elif not same(ex.results[i], ref):
                    out.append({"kind": "concurrent_caller_gets_wrong_table", "msg": f"actor {i}: shape {np.asarray(ex.results[i]).shape} instead of {ref.shape}", "facts": {"start": "empty" if sname == "empty" else "crash"}, "sub": sub})
                    outcome.append("wrong")
                else:
                    outcome.append("ok")
            os.environ["XDG_CACHE_HOME"] = ctx["dir"]
            try:
                later = caller(n)()
                if not same(later, ref):
                    out.append({"kind": "later_run_gets_wrong_table", "msg": f"shape {np.asarray(later).shape}", "facts": {"start": "empty" if sname == "empty" else "crash"}, "sub": sub})
                    outcome.append("later-wrong")
            except Exception as e:  # noqa: BLE001
                out.append({"kind": "later_run_raises", "msg": f"{type(e).__name__}: {str(e)[:200]}", "facts": {"start": "empty" if sname == "empty" else "crash"}, "sub": sub})
                outcome.append("later-raise")
            ctx["outcome"] = (tuple(outcome), tuple(r["thread"] + r["op"] for r in ctx["shim"].log))
            shutil.rmtree(ctx["dir"], ignore_errors=True)
            return out

        st = sched.explore(make_bodies, check, case["bound"], max_executions=int(os.environ.get("VERIF_C36_MAXEXEC", "60000")))
        evals += st["executions"]
        tags["mc_states"] = tags.get("mc_states", 0) + st["points"]
        tags["mc_transitions"] = tags.get("mc_transitions", 0) + st["points"]
        tags["schedules"] = tags.get("schedules", 0) + st["executions"]
        tags["distinct_operation_orders"] = tags.get("distinct_operation_orders", 0) + len(st["outcomes"])
        if st["capped"]:
            tags["capped_scenarios"] = tags.get("capped_scenarios", 0) + 1
        for j, o in enumerate(sorted(st["outcomes"], key=repr)):
            keys.append(f"{n}|{case['actors']}|{sname}|{hash(o)}")
        seen_kinds = {}
        for v in st["violations"]:
            seen_kinds[v["kind"]] = seen_kinds.get(v["kind"], 0) + 1
            if seen_kinds[v["kind"]] <= 3:
                viol.append(v)
            else:
                tags["more_" + v["kind"]] = tags.get("more_" + v["kind"], 0) + 1
    return {"evals": evals, "viol": viol, "tags": tags, "keys": keys}
