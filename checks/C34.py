"""C34 The command-line interface is faithful to the Python API."""

import itertools
import os
import shutil
import tempfile

import numpy as np
import tskit

from mc import dating, tsspace
from mc.common import call, classify_exc, exc_text

PROPERTY = "C34"
LEVEL = "model_checking"
RULE = (
    "complete option product, run in-process through cli.tsdate_main(argv): `date`: 3 methods x presence/absence of each of {-m, -e, -b, "
    "-n, -t, --probability-space, --rescaling-intervals, --max-iterations, -p, -r, positional Ne} with one non-default value each (3 x 2^11 "
    "argvs); `preprocess`: --minimum_gap {absent, value} x --erase-flanks {absent, True, False, 0} (also via its alias --trim_telomeres) x "
    "--split-disjoint {absent, True, False, 0}; plus every numeric `date` option given explicitly as 0 with each method. a recording wrapper around tsdate.date / tsdate.preprocess_ts captures the keyword "
    "arguments that reach the API and returns the real result. oracle: (i) for argvs that are valid, every option given reaches the API with "
    "the value given (and absent options with the API default); the file written loads to exactly the tables the API call returned; (ii) "
    "invalid combinations (option not applicable to the method, missing required rate / population size, recombination rate, positional Ne) "
    "end with a non-zero exit or an exception and leave no output file. one evaluation = one argv; non-trivial = >=2 options present; distinct = all"
)
ASSUMPTIONS = ["one small multi-tree input file", "expected validity of an argv is derived from the documented API contracts (C35), not from cli.py"]

OPTS = [
    ("-m", "0.37"), ("-e", "0.001"), ("-b", "0.002"), ("-n", "3.5"), ("-t", "1"), ("--probability-space", "linear"),
    ("--rescaling-intervals", "2"), ("--max-iterations", "3"), ("-p", None), ("-r", "1e-8"), ("POS", "1000"),
]


def warmup():
    dating.warmup_all()


def cases(tier, seed):
    out = []
    for method in ("variational_gamma", "inside_outside", "maximization"):
        masks = list(itertools.product((0, 1), repeat=len(OPTS)))
        for i in range(0, len(masks), 64):
            out.append({"kind": "date", "method": method, "masks": masks[i : i + 64]})
    pre = []
    for mg, ef, efname, sd in itertools.product((None, "0.4"), (None, "True", "False", "0"), ("--erase-flanks", "--trim_telomeres"), (None, "True", "False", "0")):
        if ef is None and efname == "--trim_telomeres":
            continue
        pre.append([mg, ef, efname, sd])
    out.append({"kind": "preprocess", "combos": pre})
    out.append({"kind": "date_zero"})
    n = 3 * 2 ** len(OPTS) + len(pre)
    return {"cases": out, "states": n, "transitions": n, "bound": f"3 x 2^{len(OPTS)} date argvs + {len(pre)} preprocess argvs", "exhaustive": True}


def make_input(d):
    a = tsspace.universe(3, 2, 1)["args"][5]
    ts = tsspace.add_mutations(tsspace.arg_ts(a), [1 + (i % 3) for i in range(tsspace.arg_ts(a).num_edges)])
    p = os.path.join(d, "in.trees")
    ts.dump(p)
    return ts, p


def tables_equal(a, b):
    ta, tb = a.dump_tables(), b.dump_tables()
    return ta.equals(tb)


def run(case):
    import tsdate
    from tsdate import cli

    viol, tags, keys = [], {}, []
    evals = 0
    d = tempfile.mkdtemp(prefix="c34_")
    try:
        ts, inp = make_input(d)
        rec = {}
        real_date, real_pre = tsdate.date, tsdate.preprocess_ts

        def spy_date(tree_sequence, **kw):
            rec["kw"] = dict(kw)
            rec["res"] = real_date(tree_sequence, **kw)
            return rec["res"]

        def spy_pre(tree_sequence, **kw):
            rec["kw"] = dict(kw)
            rec["res"] = real_pre(tree_sequence, **kw)
            return rec["res"]

        tsdate.date, tsdate.preprocess_ts = spy_date, spy_pre
        try:
            if case["kind"] == "date":
                method = case["method"]
                vg = method == "variational_gamma"
                for mask in case["masks"]:
                    given = {o: v for (o, v), m in zip(OPTS, mask) if m}
                    outp = os.path.join(d, "out.trees")
                    if os.path.exists(outp):
                        os.remove(outp)
                    argv = ["date", inp, outp]
                    if "POS" in given:
                        argv.append(given["POS"])
                    argv += ["--method", method]
                    for o, v in given.items():
                        if o == "POS":
                            continue
                        argv += [o] if v is None else [o, v]
                    rec.clear()
                    evals += 1
                    try:
                        cli.tsdate_main(argv)
                        status = 0
                    except SystemExit as e:
                        status = e.code if isinstance(e.code, int) else 1
                    except Exception as e:  # noqa: BLE001
                        status = f"exc:{type(e).__name__}"
                    wrote = os.path.exists(outp)
                    sub = {"argv": argv[3:]}
                    # expected validity from the API contracts
                    invalid = []
                    if "POS" in given:
                        invalid.append("positional population size")
                    if "-r" in given:
                        invalid.append("recombination rate unsupported")
                    if "-m" not in given:
                        invalid.append("no mutation rate")
                    if vg:
                        invalid += [f"{o} not applicable to variational_gamma" for o in ("-n", "-t", "--probability-space", "-e") if o in given]
                    else:
                        invalid += [f"{o} not applicable to {method}" for o in ("--rescaling-intervals", "--max-iterations") if o in given]
                        if "-n" not in given:
                            invalid.append("no population size")
                    if invalid:
                        if status == 0 or wrote:
                            only_eps = invalid == ["-e not applicable to variational_gamma"]
                            viol.append({"kind": "invalid_combination_accepted", "msg": f"{invalid}: exit status {status}, output written: {wrote}", "facts": {"only_eps_with_variational_gamma": only_eps}, "sub": sub})
                    else:
                        if status != 0 or not wrote:
                            viol.append({"kind": "valid_invocation_failed", "msg": f"exit status {status}, output written: {wrote}", "facts": {}, "sub": sub})
                        else:
                            kw = rec.get("kw", {})
                            want = {"mutation_rate": float(given["-m"]), "method": method, "min_branch_length": float(given.get("-b", 1e-8)), "progress": "-p" in given, "recombination_rate": None}
                            if vg:
                                want["max_iterations"] = int(given["--max-iterations"]) if "--max-iterations" in given else None
                                want["rescaling_intervals"] = int(given["--rescaling-intervals"]) if "--rescaling-intervals" in given else None
                            else:
                                want["population_size"] = float(given["-n"])
                                want["eps"] = float(given.get("-e", 1e-8))
                                want["probability_space"] = given.get("--probability-space")
                                want["num_threads"] = int(given["-t"]) if "-t" in given else None
                            # an argument left out of the call means the API default, which is what None selects too
                            eff = {"eps": 1e-8, "min_branch_length": 1e-8, "progress": False}
                            norm = lambda k, x: eff.get(k) if x is None else x  # noqa: E731
                            for k, v in want.items():
                                if norm(k, kw.get(k)) != norm(k, v):
                                    viol.append({"kind": "option_value_not_forwarded", "msg": f"{k}: API received {kw.get(k, '<absent>')!r}, command line says {v!r}", "facts": {"option": k}, "sub": sub})
                            if not tables_equal(tskit.load(outp), rec["res"]):
                                viol.append({"kind": "output_file_differs_from_api_result", "msg": "", "facts": {}, "sub": sub})
                    if sum(mask) >= 2:
                        keys.append(f"{method}|{mask}")
            elif case["kind"] == "date_zero":
                # boundary values: each numeric option given explicitly as 0 (an explicit 0 is a value, not "absent")
                Z = [("--rescaling-intervals", "rescaling_intervals", int), ("--max-iterations", "max_iterations", int), ("-t", "num_threads", int),
                     ("-n", "population_size", float), ("-b", "min_branch_length", float), ("-m", "mutation_rate", float)]
                for method, (opt, key, conv) in itertools.product(("variational_gamma", "inside_outside", "maximization"), Z):
                    vg = method == "variational_gamma"
                    outp = os.path.join(d, "outz.trees")
                    if os.path.exists(outp):
                        os.remove(outp)
                    argv = ["date", inp, outp, "--method", method]
                    if opt != "-m":
                        argv += ["-m", "0.37"]
                    if not vg and opt != "-n":
                        argv += ["-n", "3.5"]
                    argv += [opt, "0"]
                    rec.clear()
                    evals += 1
                    try:
                        cli.tsdate_main(argv)
                        status = 0
                    except SystemExit as e:
                        status = e.code if isinstance(e.code, int) else 1
                    except Exception as e:  # noqa: BLE001
                        status = f"exc:{type(e).__name__}"
                    wrote = os.path.exists(outp)
                    sub = {"argv": argv[3:]}
                    valid = (opt == "--rescaling-intervals" and vg) or (opt == "-t" and not vg)
                    if valid:
                        if status != 0 or not wrote:
                            viol.append({"kind": "valid_invocation_failed", "msg": f"exit status {status}, output written: {wrote}", "facts": {}, "sub": sub})
                        elif rec.get("kw", {}).get(key, "<absent>") != conv("0") or rec["kw"].get(key) is None:
                            viol.append({"kind": "option_value_not_forwarded", "msg": f"{key}: API received {rec.get('kw', {}).get(key, '<absent>')!r}, command line says 0", "facts": {"option": key}, "sub": sub})
                    elif status == 0 or wrote:
                        viol.append({"kind": "invalid_combination_accepted", "msg": f"{opt} 0 with {method}: exit status {status}, output written: {wrote}", "facts": {"only_eps_with_variational_gamma": False}, "sub": sub})
                    keys.append(f"zero|{method}|{opt}")
            else:
                for mg, ef, efname, sd in case["combos"]:
                    outp = os.path.join(d, "pre.trees")
                    if os.path.exists(outp):
                        os.remove(outp)
                    argv = ["preprocess", inp, outp]
                    if mg is not None:
                        argv += ["--minimum_gap", mg]
                    if ef is not None:
                        argv += [efname, ef]
                    if sd is not None:
                        argv += ["--split-disjoint", sd]
                    rec.clear()
                    evals += 1
                    try:
                        cli.tsdate_main(argv)
                        status = 0
                    except SystemExit as e:
                        status = e.code if isinstance(e.code, int) else 1
                    except Exception as e:  # noqa: BLE001
                        status = f"exc:{type(e).__name__}"
                    sub = {"argv": argv[3:]}
                    if status != 0 or not os.path.exists(outp):
                        viol.append({"kind": "valid_invocation_failed", "msg": f"exit status {status}", "facts": {}, "sub": sub})
                        continue
                    tobool = {"True": True, "False": False, "0": False, None: True}
                    want = {"minimum_gap": float(mg) if mg else 1000000, "erase_flanks": tobool[ef], "split_disjoint": tobool[sd]}
                    kw = rec.get("kw", {})
                    for k, v in want.items():
                        got = kw.get(k, "<absent>")
                        # an option left at its API default may legitimately be omitted from the call
                        if got == "<absent>" and ((k == "split_disjoint" and v is True) or (k == "erase_flanks" and v is True)):
                            continue
                        if got != v:
                            viol.append({"kind": "option_value_not_forwarded", "msg": f"{k}: API received {got!r}, command line says {v!r}", "facts": {"option": k}, "sub": sub})
                    if not tables_equal(tskit.load(outp), rec["res"]):
                        viol.append({"kind": "output_file_differs_from_api_result", "msg": "", "facts": {}, "sub": sub})
                    keys.append(f"pre|{mg}|{ef}|{efname}|{sd}")
        finally:
            tsdate.date, tsdate.preprocess_ts = real_date, real_pre
    finally:
        shutil.rmtree(d, ignore_errors=True)
    return {"evals": evals, "viol": viol, "tags": tags, "keys": keys}
