"""C01 Dated output is a valid tree sequence with enforced branch lengths."""

import itertools

import numpy as np
import tskit

from mc import dating, tsspace
from mc.common import call, classify_exc, exc_text

PROPERTY = "C01"
LEVEL = "model_checking"
RULE = (
    "one evaluation = one date()/named-method call on (ARG, mutation pattern, time scale, sample-age decorator, "
    "method, min_branch_length, constr_iterations, VG options); oracle on every returned ts: tables re-validate, "
    "t[p] > t[c] and t[p] >= fl(t[c]+mbl) on every edge, t[node] <= mutation time <= t[parent above it]. "
    "non-trivial = the forced pass moved a node (output time != unconstrained mean) or the edge sits in the "
    "rounding region fl(t[c]+mbl)==t[c]; distinct = distinct (ARG, mutations, scale, H, method, options)"
)
ASSUMPTIONS = [
    "calls that do not return (exceptions) are outside this property's statement; they are counted here and judged by C35",
    "small-scope ARGs (n<=4 quick, n<=5 thorough; L<=3 loci; R<=2 recombinations)",
]


def warmup():
    dating.warmup_all()


def cases(tier, seed):
    sp = tsspace.space(tier)
    scales = ["2^-20", "1", "2^28"] if tier == "quick" else list(dating.SCALES)
    out = []
    for a in sp.args:
        E = tsspace.arg_ts(a).num_edges
        pats = tsspace.mutation_patterns(E, "Ms" if tier == "quick" else "Mp")
        if tier == "quick":
            pats = pats[:2] + pats[3:4]
        for (pn, pat), sc in itertools.product(pats, scales):
            for H in dating.H_menu(a, tier):
                out.append({"arg": a, "mut": pat, "scale": sc, "H": H, "above_root": 1 if pn == "mod3" else 0})
            if pn == "ones" and sc == "1":
                # further input decorators: other node numbering, sites with mutations on several nodes, missing data
                if a["nn"] - a["n"] > 1:
                    out.append({"arg": a, "mut": pat, "scale": sc, "H": {"kind": "cont"}, "renumber": "rotate"})
                out.append({"arg": a, "mut": pat, "scale": sc, "H": {"kind": "cont"}, "merge_sites": True})
                if a["L"] > 1:
                    out.append({"arg": a, "mut": pat, "scale": sc, "H": {"kind": "cont"}, "K": [0, a["L"] - 1]})
    return {
        "cases": out,
        "states": sp.states,
        "transitions": sp.transitions,
        "bound": f"{sp.describe()} x mutation menu x scales {scales} x H menu (+ rotated node numbering, multi-node sites, missing data) x 3 methods x mbl x constr_iterations x VG options",
        "exhaustive": True,
    }


def check_output(ts_in, out, mbl, viol, tags, sub, fit_mean=None):
    def tag(k, n=1):
        tags[k] = tags.get(k, 0) + n

    try:
        out.dump_tables().tree_sequence()
    except Exception as e:  # noqa: BLE001
        viol.append({"kind": "invalid_output", "msg": exc_text(e), "facts": {}, "sub": sub})
        return False
    t = out.nodes_time
    nontriv = False
    for e in out.edges():
        p, c = e.parent, e.child
        if not t[p] > t[c]:
            viol.append({"kind": "parent_not_older", "msg": f"edge {p}->{c}: {t[p]!r} <= {t[c]!r}", "facts": {}, "sub": sub})
            break
        if not t[p] >= t[c] + mbl:
            viol.append(
                {"kind": "branch_shorter_than_min", "msg": f"edge {p}->{c}: {t[p]!r} < fl({t[c]!r}+{mbl!r})", "facts": {}, "sub": sub}
            )
            break
        if t[c] + mbl == t[c]:
            tag("edges_in_rounding_region")
            nontriv = True
        if t[p] == t[c] + mbl:
            tag("edges_forced_exactly")
            nontriv = True
    for m in out.mutations():
        tree = out.at(out.site(m.site).position)
        par = tree.parent(m.node)
        lo = t[m.node]
        if par == tskit.NULL:
            if m.time != lo:
                viol.append({"kind": "root_mutation_time", "msg": f"mut {m.id} time {m.time!r} != node time {lo!r}", "facts": {}, "sub": sub})
                break
            tag("mutations_above_root")
        elif not (lo <= m.time <= t[par]):
            viol.append(
                {"kind": "mutation_time_out_of_branch", "msg": f"mut {m.id}: {m.time!r} not in [{lo!r},{t[par]!r}]", "facts": {}, "sub": sub}
            )
            break
    return nontriv


def run(case):
    import tsdate

    ts, s = dating.build_input(case)
    viol, tags, keys = [], {}, []
    evals = 0
    cont = case["H"]["kind"] == "cont"
    mbls = [None, 1e-3 * s, 0.5 * s, 2.0 * s]
    citers = [None, 0, 3]
    mu = 1.0 / s
    plans = []
    for cfg in dating.vg_configs():
        plans.append(("variational_gamma", cfg))
    if cont:
        plans.append(("inside_outside", {}))
        plans.append(("maximization", {}))
    for (method, cfg), mbl, ci in itertools.product(plans, mbls, citers):
        kw = dict(cfg)
        if mbl is not None:
            kw["min_branch_length"] = mbl
        if ci is not None:
            kw["constr_iterations"] = ci
        evals += 1
        ok, res = call(dating.method_call, method, ts, mu, kw, popsize=s)
        sub = {"method": method, "cfg": kw}
        if not ok:
            tags[f"no_return:{method}:{classify_exc(res)}"] = tags.get(f"no_return:{method}:{classify_exc(res)}", 0) + 1
            continue
        tags[f"returned:{method}"] = tags.get(f"returned:{method}", 0) + 1
        eff = 1e-8 if mbl is None else mbl
        if check_output(ts, res, eff, viol, tags, sub):
            keys.append(f"{case['arg']['id']}|{case['mut']}|{case['scale']}|{case['H']}|{case.get('renumber')}|{case.get('merge_sites')}|{case.get('K')}|{method}|{kw}")
    return {"evals": evals, "viol": viol, "tags": tags, "keys": keys}
