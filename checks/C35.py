"""C35 Invalid inputs are rejected cleanly and valid ones never crash."""

import itertools

import numpy as np
import tskit

from mc import dating, tsspace, xdecor
from mc.common import call, classify_exc, exc_text, edge_mut_counts

PROPERTY = "C35"
LEVEL = "model_checking"
RULE = (
    "(valid side) every bounded ARG x mutation patterns (incl. all-zero, zero on some edges, above-root) x pathological decorators "
    "{plain, time scale 2^-20 / 2^28 / 1e12, historical leaf, internal sample, free (un-flagged) leaf, sample isolated over a locus, "
    "isolated-sample mutation, migrations table, diploid individuals with unphased singletons, no sites at all} x date() with each "
    "method x option menu x return_fit x return_likelihood: the call must return the documented shape (ts | (ts,fit) | (ts,lik) | "
    "(ts,fit,lik)) or raise ValueError / NotImplementedError with a non-empty message; anything else (AssertionError, LibraryError, "
    "numba TypingError, IndexError, ...) is a violation. (invalid side) each invalid parameter of the statement, alone, on a plain valid "
    "input x 3 methods: must raise ValueError/NotImplementedError. one evaluation = one call; non-trivial = decorator != plain or an "
    "invalid parameter; distinct = (input, decorator, method, options)"
)
ASSUMPTIONS = ["small-scope ARGs", "tskit itself validates table structure; only inputs that tskit accepts as tree sequences are generated"]

DECOS = ["plain", "s2^-20", "s2^28", "s1e12", "hist", "internal", "free_leaf", "isolated", "isolated_mut", "migrations", "unphased", "no_sites"]


SHARP = {"U332#41": ["plain", "s2^28", "s1e12"], "U431#51": ["plain", "isolated"], "U431#42": ["plain", "isolated_mut"]}


def warmup():
    dating.warmup_all()


def cases(tier, seed):
    sp = tsspace.space(tier)
    out = []
    for a in sp.args:
        E = tsspace.arg_ts(a).num_edges
        pats = [("ones", [1] * E), ("mod3", [i % 3 for i in range(E)]), ("lastonly", [0] * (E - 1) + [2])]
        pats += [("first", [1] + [0] * (E - 1))]
        if tier != "quick":
            pats += [("spike", [5] + [1] * (E - 1))]
        for (pn, pat), deco in itertools.product(pats, DECOS):
            if tier == "quick" and pn == "first" and deco not in ("plain", "unphased", "hist"):
                continue  # a single (possibly unphased) singleton: rounding residue in the rescaling intervals (F21)
            if deco in ("isolated", "isolated_mut") and a["L"] < 2:
                continue
            if deco == "unphased" and a["n"] not in (2, 4):
                continue
            out.append({"arg": a, "mut": pat, "deco": deco, "above_root": int(pn == "mod3")})
    if tier == "quick":
        # inputs from the thorough universes on which that tier found defects (F20, F22, F23): kept in the quick tier too
        th = {a["id"]: a for a in tsspace.space("thorough").args}
        for aid, decos in SHARP.items():
            a = th[aid]
            E = tsspace.arg_ts(a).num_edges
            for pat in ([1] * E, [i % 3 for i in range(E)], [0] * (E - 1) + [2], [1] + [0] * (E - 1)):
                for deco in decos:
                    out.append({"arg": a, "mut": pat, "deco": deco, "above_root": 0})
        out.append({"invalid": True, "arg": th["U510#14"], "mut": [1] * 5})
    # invalid-parameter menu: every single-tree input (incl. the star trees, on which a bad rate is not masked by an unrelated
    # 'dangling nodes' rejection: finding F20) and a spread of the many-tree ones
    inv = sorted({i for i, a in enumerate(sp.args) if a["trees"] == 1} | {1, len(sp.args) // 2, len(sp.args) - 1} | set(range(0, len(sp.args), 97 if tier == "quick" else 29)))
    out += [{"invalid": True, "arg": sp.args[i], "mut": [1] * tsspace.arg_ts(sp.args[i]).num_edges} for i in inv]
    return {"cases": out, "states": sp.states, "transitions": sp.transitions, "bound": f"{sp.describe()} x mutation menu x decorators {DECOS} x methods x option menu x return flags; invalid-parameter menu on {len(inv)} inputs (all single-tree ARGs + a spread of the others)", "exhaustive": True}


def decorate(case):
    d = case["deco"]
    c = dict(case)
    if d.startswith("s"):
        c["scale"] = d[1:]
    if d == "hist":
        c["H"] = {"kind": "hist", "leaf": 0}
    if d == "internal":
        c["H"] = {"kind": "internal", "nodes": [case["arg"]["n"]]}
    ts, s = dating.build_input(c)
    if d == "free_leaf":
        t = ts.dump_tables()
        fl = t.nodes.flags
        fl[0] = 0
        t.nodes.flags = fl
        ts = t.tree_sequence()
    if d in ("isolated", "isolated_mut"):
        ts0 = tsspace.arg_ts(case["arg"])
        ts0 = tsspace.isolate_sample(ts0, 0, [0])
        pat = (list(case["mut"]) * 3)[: ts0.num_edges]
        ts = tsspace.add_mutations(ts0, pat)
        if d == "isolated_mut":
            t = ts.dump_tables()
            si = t.sites.add_row(0.987, "A")
            t.mutations.add_row(si, 0, derived_state="T")
            t.sort()
            t.build_index()
            t.compute_mutation_parents()
            ts = t.tree_sequence()
    if d == "migrations":
        ts = xdecor.decorate(ts, "migrations")
    if d == "unphased":
        ts = dating.add_individuals(ts)
    if d == "no_sites":
        t = ts.dump_tables()
        t.sites.clear()
        t.mutations.clear()
        ts = t.tree_sequence()
    return ts, s


def shape_ok(res, rf, rl):
    want = 1 + int(bool(rf)) + int(bool(rl))
    if want == 1:
        return isinstance(res, tskit.TreeSequence)
    return isinstance(res, tuple) and len(res) == want and isinstance(res[0], tskit.TreeSequence)


def plans(deco, s):
    p = [
        ("variational_gamma", {}),
        ("variational_gamma", {"rescaling_intervals": 0}),
        ("variational_gamma", {"rescaling_intervals": 2, "match_segregating_sites": True}),
        ("variational_gamma", {"max_iterations": 1, "max_shape": 2.0, "regularise_roots": False}),
        ("inside_outside", {"population_size": s}),
        ("inside_outside", {"population_size": s, "probability_space": "linear", "ignore_oldest_root": True}),
        ("maximization", {"population_size": s}),
        ("maximization", {"population_size": {"population_size": [s, 2 * s], "time_breaks": [s]}, "probability_space": "linear", "num_threads": 1}),
    ]
    if deco == "unphased":
        p += [("variational_gamma", {"singletons_phased": False}), ("variational_gamma", {"singletons_phased": False, "rescaling_intervals": 0})]
    return p


def facts_for(ts, e, method, cfg, s):
    msg = str(e)
    f = {"exc": type(e).__name__, "method": method}
    if "Use fewer rescaling intervals" in msg:
        mcount = edge_mut_counts(ts)
        brk = np.unique(ts.nodes_time)
        f["fewer_intervals_assert"] = True
        f["rescaling_on"] = cfg.get("rescaling_intervals", 1000) >= 2
        f["few_mutations"] = bool(np.any(mcount == 0)) or ts.num_mutations < 2 * ts.num_nodes
        parents = set(int(p) for p in ts.edges_parent)
        # inputs on which the rescaling step is still fragile: samples that are not contemporary leaves, free leaves, or no mutation on any edge
        children = set(int(c) for c in ts.edges_child)
        leaves = [u for u in range(ts.num_nodes) if u in children and u not in parents]
        smp = set(int(u) for u in ts.samples())
        contemporary = all(ts.nodes_time[u] == 0 and u not in parents for u in smp) and all(u in smp for u in leaves)
        f["noncontemporary_or_no_edge_mutations"] = bool((not contemporary) or mcount.sum() == 0)
        f["noncontemporary"] = bool(not contemporary)
    if isinstance(e, tskit.LibraryError):
        f["library_error"] = msg[:60]
        t = ts.nodes_time
        f["time_resolution_exhausted"] = bool(np.max(t) + 1e-8 == np.max(t)) or bool(s >= 2.0**27)
    return f


def run(case):
    import tsdate

    viol, tags, keys = [], {}, []
    evals = 0
    if case.get("invalid"):
        ts = tsspace.add_mutations(tsspace.arg_ts(case["arg"]), case["mut"])
        tsd = dating.add_individuals(ts) if ts.num_samples % 2 == 0 else ts
        pri = tsdate.build_prior_grid(ts, population_size=1.0)
        base = {"variational_gamma": {}, "inside_outside": {"population_size": 1.0}, "maximization": {"population_size": 1.0}}
        menu = [
            ("mutation_rate_zero", None, {"mutation_rate": 0.0}),
            ("mutation_rate_negative", None, {"mutation_rate": -1.0}),
            ("min_branch_length_zero", None, {"min_branch_length": 0.0}),
            ("min_branch_length_negative", None, {"min_branch_length": -1e-3}),
            ("constr_iterations_negative", None, {"constr_iterations": -1}),
            ("constr_iterations_float", None, {"constr_iterations": 1.5}),
            ("max_iterations_zero", "variational_gamma", {"max_iterations": 0}),
            ("max_iterations_negative", "variational_gamma", {"max_iterations": -3}),
            ("unknown_method", "nonsense", {}),
            ("population_size_unused", "variational_gamma", {"population_size": 1.0}),
            ("priors_unused", "variational_gamma", {"priors": pri}),
            ("eps_with_vg", "variational_gamma", {"eps": 1e-6}),
            ("recombination_rate", None, {"recombination_rate": 1e-8}),
            ("return_posteriors", None, {"return_posteriors": True}),
            ("both_popsize_and_priors", "inside_outside", {"priors": pri}),
            ("no_popsize_no_priors", "maximization", {"population_size": None}),
            ("bad_probability_space", "inside_outside", {"probability_space": "cubic"}),
            ("population_size_negative", "inside_outside", {"population_size": -5.0}),
        ]
        for name, only, extra in menu:
            methods = [only] if only else list(base)
            for method, rf, rl in itertools.product(methods, (None, True), (None, True)):
                kw = dict(base.get(method, {}))
                kw.update(extra)
                kw.setdefault("mutation_rate", 1.0)
                if rf:
                    kw["return_fit"] = True
                if rl:
                    kw["return_likelihood"] = True
                evals += 1
                ok, res = call(tsdate.date, ts, method=method, **{k: v for k, v in kw.items() if not (k == "population_size" and v is None)})
                sub = {"invalid": name, "method": method, "return_fit": rf, "return_likelihood": rl}
                if ok:
                    viol.append({"kind": "invalid_parameter_accepted", "msg": f"{name} with {method}", "facts": {"which": name, "method": method}, "sub": sub})
                elif classify_exc(res) != "clean":
                    viol.append({"kind": "invalid_parameter_internal_error", "msg": f"{name}: {exc_text(res)}", "facts": {"which": name, "method": method, "exc": type(res).__name__}, "sub": sub})
                keys.append(f"invalid|{case['arg']['id']}|{name}|{method}|{rf}|{rl}")
        # no mutations at all with variational_gamma
        t = ts.dump_tables()
        t.sites.clear()
        t.mutations.clear()
        evals += 1
        ok, res = call(tsdate.date, t.tree_sequence(), mutation_rate=1.0)
        if ok or classify_exc(res) != "clean":
            viol.append({"kind": "no_mutations_not_rejected_cleanly", "msg": "returned" if ok else exc_text(res), "facts": {}, "sub": {}})
        return {"evals": evals, "viol": viol, "tags": tags, "keys": keys}

    ts, s = decorate(case)
    deco = case["deco"]
    for (method, cfg), (rf, rl) in itertools.product(plans(deco, s), ((None, None), (True, None), (None, True), (True, True))):
        kw = dict(cfg)
        if rf:
            kw["return_fit"] = True
        if rl:
            kw["return_likelihood"] = True
        if (rf or rl) and deco not in ("plain", "hist", "unphased", "s2^28"):
            continue  # return-shape flags are crossed with a subset of decorators
        evals += 1
        ok, res = call(tsdate.date, ts, mutation_rate=1.0 / s, method=method, **kw)
        sub = {"method": method, "cfg": {k: (v if not isinstance(v, dict) else "history") for k, v in kw.items()}}
        if ok:
            tags["returned"] = tags.get("returned", 0) + 1
            if not shape_ok(res, rf, rl):
                viol.append({"kind": "wrong_return_shape", "msg": f"{type(res).__name__} len {len(res) if isinstance(res, tuple) else 1}", "facts": {}, "sub": sub})
        else:
            c = classify_exc(res)
            if c == "clean":
                tags["clean_rejections"] = tags.get("clean_rejections", 0) + 1
            else:
                viol.append({"kind": "internal_error", "msg": exc_text(res, 200), "facts": dict(facts_for(ts, res, method, cfg, s), deco=deco), "sub": sub})
        if deco != "plain":
            keys.append(f"{case['arg']['id']}|{case['mut']}|{deco}|{sub}")
    return {"evals": evals, "viol": viol, "tags": tags, "keys": keys}
