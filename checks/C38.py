"""C38 ignore_oldest_root ignores exactly the oldest root."""

import itertools

import numpy as np

from mc import dating, meta, tsspace
from mc.common import classify_exc, exc_text
from checks import C11

PROPERTY = "C38"
LEVEL = "model_checking"
RULE = (
    "one evaluation = one inside_outside(ignore_oldest_root=True) run on (ARG, mutation pattern, numbering of the non-sample nodes: ALL "
    "permutations for <=5 internal nodes, else all rotations + reversal, probability space). oracle: (i) every numbering gives the same "
    "posterior rows / means / variances / node times as the time-ordered numbering once mapped back (1e-9); (ii) in every numbering, nodes "
    "with no ancestral path from the oldest root (greatest input time) have exactly the posterior of the run with the option off; (iii) "
    "nodes all of whose parent edges lead to the oldest root have posterior proportional to their inside values; (iv) some node below the "
    "oldest root does change. non-trivial = numbering in which the oldest root does not carry the highest id, or ARG with several roots; "
    "distinct = (input, numbering, space)"
)
ASSUMPTIONS = ["samples at time zero", "small-scope ARGs"]
MU = 0.7


def warmup():
    dating.warmup_all()


def cases(tier, seed):
    sp = tsspace.space(tier)
    out = []
    for a in sp.args:
        if a["nn"] - a["n"] < 2:
            continue
        E = tsspace.arg_ts(a).num_edges
        pats = tsspace.mutation_patterns(E, "Ms")
        pats = pats[1:2] + pats[3:4] if tier == "quick" else pats
        for pn, pat in pats:
            out.append({"arg": a, "mut": pat})
    return {
        "cases": out,
        "states": sp.states,
        "transitions": sp.transitions,
        "bound": f"{sp.describe()} (>=2 internal nodes) x mutation menu x all numberings of non-sample nodes x {{linear, logarithmic}}",
        "exhaustive": True,
    }


def run(case):
    ts0 = tsspace.add_mutations(tsspace.arg_ts(case["arg"]), case["mut"])
    n, N = case["arg"]["n"], ts0.num_nodes
    viol, tags, keys = [], {}, []
    evals = 0
    inner = list(range(n, N))
    if len(inner) <= 5:
        perms = list(itertools.permutations(inner))
    else:
        perms = [tuple(inner[i:] + inner[:i]) for i in range(len(inner))] + [tuple(inner[::-1])]
    for space in ("logarithmic", "linear"):
        ref = None
        for p in perms:
            if list(p) == inner:
                ts, order = ts0, list(range(N))
            else:
                ts, order = tsspace.renumber_nodes(ts0, list(p))
            back = np.array(order)
            inv = np.empty(N, dtype=int)
            inv[back] = np.arange(N)
            evals += 1
            sub = {"numbering": list(p), "space": space}
            okon, on = meta.outputs("inside_outside", ts, MU, {"probability_space": space, "ignore_oldest_root": True}, popsize=1.0)
            okoff, off = meta.outputs("inside_outside", ts, MU, {"probability_space": space}, popsize=1.0)
            if not okon or not okoff:
                bad = on if not okon else off
                if list(p) == inner:
                    tags[f"base_no_return:{classify_exc(bad)}"] = tags.get(f"base_no_return:{classify_exc(bad)}", 0) + 1
                    break
                viol.append({"kind": "renumbered_input_fails", "msg": exc_text(bad), "facts": {"exc": type(bad).__name__}, "sub": sub})
                continue
            # who is the oldest root in this numbering?
            roots = set()
            for tree in ts.trees():
                roots.update(r for r in tree.roots if tree.num_children(r) > 0)
            oldest = max(roots, key=lambda r: ts.nodes_time[r])
            anc = C11.ancestors(ts)
            highest = oldest == N - 1
            if not highest or len(roots) > 1:
                keys.append(f"{case['arg']['id']}|{case['mut']}|{p}|{space}")
            facts = {"oldest_root_has_highest_id": bool(highest)}
            norm = lambda r: r / r.sum()  # noqa: E731
            changed_below = False
            for u in range(n, N):
                if u == oldest:
                    continue
                a, b = norm(on["grid"][u]), norm(off["grid"][u])
                pe = [e for e in ts.edges() if e.child == u]
                if not anc[oldest][u]:
                    if not np.max(np.abs(a - b)) <= 1e-12:
                        viol.append({"kind": "unrelated_node_changed", "msg": f"node {u} (old id {order[u]}) is not below the oldest root {oldest} but its posterior differs from the option-off run by {np.max(np.abs(a - b)):.3g}", "facts": facts, "sub": sub})
                        break
                else:
                    if np.max(np.abs(a - b)) > 1e-12:
                        changed_below = True
                    if pe and all(e.parent == oldest for e in pe):
                        ins = np.array(on["fit"].inside[u], float)
                        ins = np.exp(ins - np.max(ins)) if space == "logarithmic" else ins
                        if not np.max(np.abs(a - norm(ins))) <= 1e-9:
                            viol.append({"kind": "child_of_oldest_root_not_inside_only", "msg": f"node {u} (old id {order[u]}): posterior {a.tolist()} vs normalised inside {norm(ins).tolist()}", "facts": facts, "sub": sub})
                            break
            if not changed_below and any(anc[oldest][u] for u in range(n, N)):
                viol.append({"kind": "option_has_no_effect_below_oldest_root", "msg": f"oldest root {oldest} (old id {order[oldest]})", "facts": facts, "sub": sub})
            mapped = {"t": np.asarray(on["t"])[inv], "mn": np.asarray(on["mn"])[inv], "vr": np.asarray(on["vr"])[inv]}
            if ref is None:
                ref = mapped
            else:
                diffs = meta.compare(ref, mapped, 1e-9, fields=("t", "mn", "vr"))
                if diffs:
                    viol.append({"kind": "depends_on_numbering", "msg": f"{diffs}", "facts": facts, "sub": sub})
    return {"evals": evals, "viol": viol, "tags": tags, "keys": keys}
