"""C02 Dating changes only times, time metadata and unphased singleton placement."""

import itertools

import numpy as np
import tskit

from mc import dating, tsspace, xdecor
from mc.common import call, classify_exc, exc_text

PROPERTY = "C02"
LEVEL = "model_checking"
RULE = (
    "one evaluation = one date() call on (ARG, mutation pattern incl. recurrent/above-root mutations, irrelevant-data "
    "variant X, individuals, method, set_metadata, singletons_phased); oracle = whole TableCollection diff with an "
    "explicit allow-list (node time, mutation time/parent, mn/vr metadata keys + schema, time_units, +1 provenance row, "
    "edge order, mutation node only when unphased and only to the individual's sibling node). non-trivial = input carries "
    "non-default data in at least one table the oracle compares (X != plain or individuals present); distinct = distinct inputs x options"
)
ASSUMPTIONS = ["small-scope ARGs; metadata codecs: json permissive, struct, raw bytes", "calls that raise are judged by C35"]


def warmup():
    dating.warmup_all()


def cases(tier, seed):
    sp = tsspace.space(tier, renumber=("reverse",))
    out = []
    for a in sp.args:
        E = tsspace.arg_ts(a).num_edges
        pats = tsspace.mutation_patterns(E, "Ms")
        pats = pats[:3] if tier == "quick" else pats
        xs = xdecor.X_VARIANTS if not (tier == "quick" and "renumber" in a) else ["plain", "rich"]
        if "renumber" not in a:
            xs = list(xs) + ["chain_vg", "chain_io", "chain_vg_pre"]
        for (pn, pat), X in itertools.product(pats, xs):
            for dip in (False, "rich") if a["n"] % 2 == 0 else (False,):
                out.append({"arg": a, "mut": pat, "X": X, "dip": dip, "above_root": int(pn == "mod3"), "recurrent": pn == "mod3b"})
                if X in ("plain", "rich") and pn == "ones" and not dip:
                    # sites carrying mutations on several different nodes
                    out.append({"arg": a, "mut": pat, "X": X, "dip": dip, "above_root": 0, "recurrent": False, "merge_sites": True})
    return {
        "cases": out,
        "states": sp.states,
        "transitions": sp.transitions,
        "bound": f"{sp.describe()} x mutation menu x X{xdecor.X_VARIANTS} + chained inputs (output of date / date+preprocess_ts used as input) x individuals x 3 methods x set_metadata x singletons_phased",
        "exhaustive": True,
    }


def _md_wo_time(table, row):
    """row metadata with mn/vr removed (decoded when the schema decodes to a dict)"""
    md = row.metadata
    if isinstance(md, dict):
        md = {k: v for k, v in md.items() if k not in ("mn", "vr")}
        return ("dict", tuple(sorted((k, repr(v)) for k, v in md.items())))
    return ("raw", bytes(md))


def diff_tables(ts_in, out, unphased, set_md, viol, sub):
    def bad(kind, msg):
        viol.append({"kind": kind, "msg": msg, "facts": {}, "sub": sub})

    a, b = ts_in.dump_tables(), out.dump_tables()
    if a.sequence_length != b.sequence_length:
        bad("sequence_length_changed", "")
    for name in ("populations", "individuals", "migrations", "sites"):
        ta, tb = getattr(a, name), getattr(b, name)
        if not ta.equals(tb):
            bad(f"{name}_table_changed", f"{ta.num_rows} rows in / {tb.num_rows} rows out")
    if a.metadata_schema != b.metadata_schema or a.metadata != b.metadata:
        bad("toplevel_metadata_changed", "")
    if a.reference_sequence.data != b.reference_sequence.data:
        bad("reference_sequence_changed", "")
    # nodes
    if a.nodes.num_rows != b.nodes.num_rows:
        bad("node_count_changed", "")
        return
    for col in ("flags", "population", "individual"):
        if not np.array_equal(getattr(a.nodes, col), getattr(b.nodes, col)):
            bad(f"node_{col}_changed", "")
    for u in range(a.nodes.num_rows):
        if _md_wo_time(a.nodes, a.nodes[u]) != _md_wo_time(b.nodes, b.nodes[u]):
            if isinstance(a.nodes[u].metadata, bytes) and len(a.nodes[u].metadata) == 0 and isinstance(b.nodes[u].metadata, dict):
                continue  # empty -> {mn,vr}
            bad("node_other_metadata_changed", f"node {u}: {a.nodes[u].metadata!r} -> {b.nodes[u].metadata!r}")
            break
    if set_md is False and (a.nodes.metadata_schema != b.nodes.metadata_schema or not np.array_equal(a.nodes.metadata, b.nodes.metadata)):
        bad("node_metadata_changed_with_set_metadata_false", "")
    # edges as a set
    ea = sorted((e.left, e.right, e.parent, e.child, bytes(e.metadata) if isinstance(e.metadata, bytes) else repr(e.metadata)) for e in a.edges)
    eb = sorted((e.left, e.right, e.parent, e.child, bytes(e.metadata) if isinstance(e.metadata, bytes) else repr(e.metadata)) for e in b.edges)
    if ea != eb:
        bad("edge_set_changed", f"{len(ea)} in / {len(eb)} out")
    if a.edges.metadata_schema != b.edges.metadata_schema:
        bad("edge_schema_changed", "")
    # mutations row by row
    if a.mutations.num_rows != b.mutations.num_rows:
        bad("mutation_count_changed", "")
        return
    ind = ts_in.nodes_individual
    # a site whose mutations sit on >=2 distinct nodes may come back with its rows permuted (known finding F13:
    # tables.sort() orders them by the NEW node times); detect that first, site by site, and compare modulo it
    perm = list(range(a.mutations.num_rows))
    if not unphased:
        by_site = {}
        for m in range(a.mutations.num_rows):
            by_site.setdefault(a.mutations[m].site, []).append(m)
        for site, rows in by_site.items():
            if len({a.mutations[m].node for m in rows}) < 2:
                continue
            key_in = [(a.mutations[m].node, a.mutations[m].derived_state, _md_wo_time(a.mutations, a.mutations[m])) for m in rows]
            rows_out = [m for m in range(b.mutations.num_rows) if b.mutations[m].site == site]
            key_out = [(b.mutations[m].node, b.mutations[m].derived_state, _md_wo_time(b.mutations, b.mutations[m])) for m in rows_out]
            norm = lambda k: (k[0], k[1], ("dict", ()) if k[2] == ("raw", b"") else k[2])  # noqa: E731  (empty -> {mn,vr} is allowed)
            key_in, key_out = [norm(k) for k in key_in], [norm(k) for k in key_out]
            if rows_out == rows and key_in != key_out and sorted(map(repr, key_in)) == sorted(map(repr, key_out)):
                # match rows greedily so the remaining comparisons are made modulo the permutation
                used = set()
                for m, k in zip(rows, key_in):
                    for m2, k2 in zip(rows_out, key_out):
                        if m2 not in used and repr(k2) == repr(k):
                            perm[m] = m2
                            used.add(m2)
                            break
                # was the reordering forced by tskit's rule "mutations at a site in non-increasing time order"?
                tnew_in_order = [b.mutations[perm[m]].time for m in rows]
                # (ties in the new times are re-broken by tskit's sort, which is the same mechanism)
                forced = any(x <= y for x, y in zip(tnew_in_order[:-1], tnew_in_order[1:]))
                viol.append({"kind": "mutation_rows_permuted_within_site", "msg": f"site {site}: input nodes {[k[0] for k in key_in]} -> output nodes {[k[0] for k in key_out]}; new times in input order {tnew_in_order}",
                             "facts": {"site_has_mutations_on_distinct_nodes": True, "input_order_not_strictly_decreasing_under_new_times": forced}, "sub": sub})
    for m in range(a.mutations.num_rows):
        ra, rb = a.mutations[m], b.mutations[perm[m]]
        if ra.site != rb.site or ra.derived_state != rb.derived_state:
            bad("mutation_site_or_state_changed", f"mutation {m}")
            break
        if _md_wo_time(a.mutations, ra) != _md_wo_time(b.mutations, rb):
            if isinstance(ra.metadata, bytes) and len(ra.metadata) == 0 and isinstance(rb.metadata, dict):
                pass
            else:
                bad("mutation_other_metadata_changed", f"mutation {m}: {ra.metadata!r} -> {rb.metadata!r}")
                break
        if ra.node != rb.node:
            if not unphased:
                bad("mutation_node_changed_when_phased", f"mutation {m}: {ra.node}->{rb.node}")
                break
            i = ind[ra.node]
            sib = [u for u in ts_in.individual(i).nodes if u != ra.node] if i != tskit.NULL else []
            if i == tskit.NULL or rb.node not in sib:
                bad("mutation_node_moved_outside_individual", f"mutation {m}: {ra.node}->{rb.node}")
                break
    # provenance: earlier rows kept
    if b.provenances.num_rows not in (a.provenances.num_rows, a.provenances.num_rows + 1):
        bad("provenance_rows", f"{a.provenances.num_rows} -> {b.provenances.num_rows}")
    else:
        for i in range(a.provenances.num_rows):
            if a.provenances[i] != b.provenances[i]:
                bad("provenance_earlier_row_changed", f"row {i}")
                break


def run(case):
    import tsdate

    ts, _ = dating.build_input(case)
    if case["X"].startswith("chain_"):
        # start from a non-initial state: the input is itself the product of earlier tsdate operations
        ops = case["X"].split("_")[1:]
        for op in ops:
            if op == "vg":
                ok, ts2 = call(tsdate.date, ts, mutation_rate=1.0, rescaling_intervals=0)
            elif op == "io":
                ok, ts2 = call(tsdate.date, ts, mutation_rate=1.0, method="inside_outside", population_size=1.0)
            else:
                ok, ts2 = call(tsdate.preprocess_ts, ts)
            if not ok:
                return {"evals": 0, "viol": [], "tags": {f"chain_setup_failed:{op}": 1}, "keys": []}
            ts = ts2
        ts = xdecor.decorate(ts, "plain", diploid=case["dip"])
    else:
        ts = xdecor.decorate(ts, case["X"], diploid=case["dip"])
    viol, tags, keys = [], {}, []
    evals = 0
    plans = [("variational_gamma", {"rescaling_intervals": 0}), ("variational_gamma", {"rescaling_intervals": 2})]
    if case["dip"]:
        plans += [("variational_gamma", {"rescaling_intervals": 0, "singletons_phased": False}), ("variational_gamma", {"rescaling_intervals": 2, "singletons_phased": False})]
    plans += [("inside_outside", {}), ("maximization", {})]
    for (method, cfg), set_md in itertools.product(plans, (None, False, True)):
        if set_md is True and case["X"] == "rawbytes":
            continue  # clearing incompatible metadata is C32's policy, not a C02 difference
        kw = dict(cfg)
        if set_md is not None:
            kw["set_metadata"] = set_md
        evals += 1
        ok, res = call(dating.method_call, method, ts, 1.0, kw, popsize=1.0)
        sub = {"method": method, "cfg": kw}
        if not ok:
            k = f"no_return:{method}:{classify_exc(res)}"
            tags[k] = tags.get(k, 0) + 1
            continue
        tags["returned:" + method] = tags.get("returned:" + method, 0) + 1
        n0 = len(viol)
        diff_tables(ts, res, cfg.get("singletons_phased") is False, set_md, viol, sub)
        if np.any(res.mutations_node != ts.mutations_node):
            tags["runs_with_rephased_singletons"] = tags.get("runs_with_rephased_singletons", 0) + 1
        if case["X"] != "plain" or case["dip"]:
            keys.append(f"{case['arg']['id']}|{case['mut']}|{case['X']}|{case['dip']}|{method}|{kw}")
    return {"evals": evals, "viol": viol, "tags": tags, "keys": keys}
