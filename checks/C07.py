"""C07 Rescaling genome coordinates and mutation rate together leaves dates unchanged."""

import itertools

import numpy as np
import tskit

from mc import dating, meta, tsspace
from mc.common import classify_exc, exc_text

PROPERTY = "C07"
LEVEL = "model_checking"
RULE = (
    "one evaluation = one pair of runs: (input, mu) and (input with sequence length, edge endpoints and site positions multiplied by c, mu/c), "
    "for c on an exact lattice {2^-40,2^-20,2^10,2^30,2^40} (1e-9, no guard) and an inexact lattice {3, 0.37, 1e5/7, 3e-7, 365.25} (1e-6; "
    "tie-sensitive inputs classified separately), also with non-uniform locus lengths (locus l stretched by l+1). compared: node times, "
    "mutation times, posterior means and variances, mutation posteriors -- all must be UNCHANGED. non-trivial = every pair; distinct = (input, method, options, c)"
)
ASSUMPTIONS = ["continuous quantifier over c covered on the ten listed factors only"]
EXACT = [2.0**-40, 2.0**-20, 2.0**10, 2.0**30, 2.0**40]
INEXACT = [3.0, 0.37, 1e5 / 7, 3e-7, 365.25]
GRID = [0, 0.1, 0.5, 1.0, 2.0, 4.0, 9.0]


def warmup():
    dating.warmup_all()


def cases(tier, seed):
    sp = tsspace.space(tier)
    out = []
    for a in sp.args + tsspace.wide_family():
        E = tsspace.arg_ts(a).num_edges
        pats = tsspace.mutation_patterns(E, "Ms")
        pats = pats[:2] + pats[3:4] if tier == "quick" else pats
        for pn, pat in pats:
            out.append({"arg": a, "mut": pat, "above_root": int(pn == "mod3"), "tier": tier})
    return {
        "cases": out,
        "states": sp.states,
        "transitions": sp.transitions,
        "bound": f"{sp.describe()} + wide family W5..W7 (a node with 5-7 distinct descendant counts) x mutation menu x methods (VG rescaling off/2/2+segsites; IO and max with integer and explicit grids, lin/log) x c in {EXACT + INEXACT}",
        "exhaustive": True,
    }


def plans(tier):
    p = [
        ("variational_gamma", {"rescaling_intervals": 0}, False),
        ("variational_gamma", {"rescaling_intervals": 2}, True),
        ("variational_gamma", {"rescaling_intervals": 2, "match_segregating_sites": True}, True),
        ("inside_outside", {"probability_space": "logarithmic"}, False),
        ("inside_outside", {"probability_space": "linear", "timepoints": GRID}, False),
        ("maximization", {"probability_space": "logarithmic", "timepoints": GRID}, False),
        ("maximization", {"probability_space": "linear"}, False),
    ]
    if tier != "quick":
        p += [("variational_gamma", {"rescaling_intervals": 5, "rescaling_iterations": 2}, True), ("variational_gamma", {"rescaling_intervals": 0, "max_shape": 3.0}, False)]
    return p


def stretch(ts, c, nonuniform=False):
    """multiply every genomic coordinate by c (nonuniform: locus l is additionally stretched by (l+1))"""

    def f(x):
        x = np.asarray(x, float)
        if not nonuniform:
            return x * c
        l = np.floor(x)
        return (l * (l + 1) / 2 + (x - l) * (l + 1)) * c  # piecewise linear, slope l+1 on locus l

    t = ts.dump_tables()
    t.sequence_length = float(f(ts.sequence_length))
    t.edges.left = f(t.edges.left)
    t.edges.right = f(t.edges.right)
    t.sites.position = f(t.sites.position)
    if t.migrations.num_rows:
        t.migrations.left = f(t.migrations.left)
        t.migrations.right = f(t.migrations.right)
    return t.tree_sequence()


def do(method, ts, cfg, c, mu=1.0, N=1.0, mbl=1e-3, eps=1e-6, nonuniform=False):
    import tsdate

    tsc = stretch(ts, c) if c != 1.0 else ts
    kw = {k: v for k, v in cfg.items() if k != "timepoints"}
    kw["min_branch_length"] = mbl
    pop = None
    if method != "variational_gamma":
        kw["eps"] = eps
        if "timepoints" in cfg:
            kw["priors"] = tsdate.build_prior_grid(tsc, population_size=N, timepoints=np.array(cfg["timepoints"], float))
        else:
            pop = N
    with meta.ChangepointTieProbe() as probe:
        ok, out = meta.outputs(method, tsc, mu / c, kw, popsize=pop)
    if ok:
        out["cp_tie"] = probe.tie
    return ok, out


def run(case):
    ts, _ = dating.build_input(case)
    viol, tags, keys = [], {}, []
    evals = 0
    nonsample = [u for u in range(ts.num_nodes) if not ts.node(u).is_sample()]
    ts_plain = ts
    for (method, cfg, rescaling), nu in itertools.product(plans(case["tier"]), (False, True)):
        if nu and ts_plain.sequence_length < 2:
            continue
        ts = stretch(ts_plain, 1.0, nonuniform=True) if nu else ts_plain
        okb, b = do(method, ts, cfg, 1.0)
        if not okb:
            k = f"base_no_return:{method}:{classify_exc(b)}"
            tags[k] = tags.get(k, 0) + 1
            continue
        tie = None
        for c in EXACT + INEXACT:
            exact = c in EXACT
            evals += 1
            oko, o = do(method, ts, cfg, c)
            sub = {"method": method, "cfg": cfg, "c": c, "nonuniform_loci": nu}
            if not oko:
                viol.append({"kind": "scaled_run_fails", "msg": exc_text(o), "facts": {"exact_factor": exact, "exc": type(o).__name__}, "sub": sub})
                continue
            diffs = meta.compare(b, o, 1e-9 if exact else 1e-6)
            keys.append(f"{case['arg']['id']}|{case['mut']}|{method}|{cfg}|{c}|{nu}")
            if not diffs:
                continue
            if tie is None:
                tie = meta.has_near_ties(b["mn"], nonsample)
                if not tie:
                    okp, p = do(method, ts, cfg, 1.0, mu=1.0 * (1 + 2.0**-30))
                    tie = (not okp) or bool(meta.compare(b, p, 1e-5))
            viol.append(
                {"kind": "not_coordinate_invariant", "msg": f"c={c!r}: {diffs}", "facts": {"exact_factor": exact, "tie_sensitive": bool(tie), "changepoint_boundary_tie": bool(b.get("cp_tie") or o.get("cp_tie")), "rescaling": rescaling, "method": method}, "sub": sub}
            )
            tags["tie_sensitive_disagreements"] = tags.get("tie_sensitive_disagreements", 0) + int(bool(tie))
    return {"evals": evals, "viol": viol, "tags": tags, "keys": keys}
