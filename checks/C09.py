"""C09 Results are deterministic and independent of thread count."""

import hashlib
import itertools
import json
import os
import subprocess
import sys

import numpy as np

from mc import dating, meta, tsspace
from mc.common import call, classify_exc, exc_text

PROPERTY = "C09"
LEVEL = "model_checking"
RULE = (
    "four explorers: (a) every input x method run 3 times in one process: byte-identical table collections; (b) a stripe of inputs dated "
    "in fresh processes under PYTHONHASHSEED in {0,1,2,12345}: identical output digests; (c) schedules: tsdate.discrete's "
    "multiprocessing.Pool replaced by a VirtualPool whose imap_unordered evaluates the real function and delivers results in an order "
    "chosen by the explorer -- ALL k! completion orders for k<=5 distinct likelihood keys (rotations+reversal above) -- plus the real Pool "
    "for num_threads in {1,2,4}: outputs identical to num_threads=None; (d) histories: ALL call sequences of length <=3 over "
    "{inside_outside, maximization} x {linear, logarithmic} sharing ONE prior object: each call agrees (1e-9) with the same call on a fresh "
    "prior, and afterwards the shared prior still equals a fresh one (1e-12, both converted to linear space). one evaluation = one run / "
    "order / sequence; non-trivial = order != identity or sequence length >=2; distinct = (input, schedule/sequence)"
)
ASSUMPTIONS = ["provenance recording off when comparing bytes (timestamps)", "small-scope ARGs"]
MU = 0.7
CALLS = [("inside_outside", "linear"), ("inside_outside", "logarithmic"), ("maximization", "linear"), ("maximization", "logarithmic")]


def warmup():
    dating.warmup_all()


def _inputs(tier):
    sp = tsspace.space(tier)
    out = []
    for a in sp.args:
        ts = tsspace.arg_ts(a)
        E = ts.num_edges
        for pn, pat in (("mod3", [i % 3 for i in range(E)]), ("ones", [1] * E), ("ramp", [0] + [i % 7 for i in range(1, E)])):
            out.append({"arg": a, "mut": pat})
    return sp, out


def cases(tier, seed):
    sp, ins = _inputs(tier)
    out = []
    for c in ins:
        out.append(dict(c, part="repeat"))
    multi = [c for c in ins if c["arg"]["trees"] > 1 and c["mut"][0] == 0]
    for c in multi:
        out.append(dict(c, part="orders"))
    seqs = multi[:: max(1, len(multi) // (6 if tier == "quick" else 40))]
    for c in seqs:
        out.append(dict(c, part="sequences"))
    return {
        "cases": out,
        "states": sp.states,
        "transitions": sp.transitions,
        "bound": f"{sp.describe()} x 3 mutation patterns; (a) 3 repetitions x 4 method configs; (b) 12 inputs x 4 hash seeds; (c) all completion orders (k<=5) + real pool 1/2/4; (d) all 84 call sequences of length<=3 on {len(seqs)} inputs",
        "exhaustive": True,
    }


def digest(ts):
    t = ts.dump_tables()
    t.provenances.clear()
    h = hashlib.sha256()
    for name in ("nodes", "edges", "sites", "mutations", "individuals", "populations"):
        tab = getattr(t, name)
        for col, arr in sorted(tab.asdict().items()):
            if isinstance(arr, np.ndarray):
                h.update(col.encode())
                h.update(np.ascontiguousarray(arr).tobytes())
    return h.hexdigest()


CONFIGS = [
    ("variational_gamma", {"rescaling_intervals": 2}),
    ("variational_gamma", {"rescaling_intervals": 0}),
    ("inside_outside", {}),
    ("maximization", {}),
]


class VirtualPool:
    """stand-in for multiprocessing.Pool: evaluates the real partial function, delivers in a chosen order"""

    order = None
    seen_keys = None

    def __init__(self, processes=None):
        self.processes = processes

    def __enter__(self):
        return self

    def __exit__(self, *a):
        return False

    def imap_unordered(self, f, keys):
        keys = list(keys)
        VirtualPool.seen_keys = keys
        res = [f(k) for k in keys]
        perm = VirtualPool.order if VirtualPool.order is not None else list(range(len(res)))
        perm = [i for i in perm if i < len(res)] + [i for i in range(len(res)) if i not in perm]
        for i in perm:
            yield res[i]


def run(case):
    import tsdate

    ts = tsspace.add_mutations(tsspace.arg_ts(case["arg"]), case["mut"])
    viol, tags, keys = [], {}, []
    evals = 0
    cid = f"{case['arg']['id']}|{case['mut']}"

    def bad(kind, msg, sub):
        if len(viol) < 6:
            viol.append({"kind": kind, "msg": msg, "facts": {}, "sub": sub})

    if case["part"] == "repeat":
        out = {}
        for method, cfg in CONFIGS:
            ds = []
            for rep in range(3):
                evals += 1
                ok, res = call(dating.method_call, method, ts, MU, dict(cfg, record_provenance=False), popsize=1.0)
                ds.append(digest(res) if ok else "EXC:" + exc_text(res, 60))
            if len(set(ds)) != 1:
                bad("repeated_call_differs", f"{method} {cfg}: {ds}", {"method": method, "cfg": cfg})
            out[f"{method}|{cfg}"] = ds[0]
        return {"evals": evals, "viol": viol, "tags": tags, "keys": [cid], "digests": out}

    if case["part"] == "orders":
        import tsdate.discrete as D

        for method, space in (("inside_outside", "logarithmic"), ("maximization", "linear")):
            cfg = {"probability_space": space, "record_provenance": False}
            ok, base = call(dating.method_call, method, ts, MU, dict(cfg), popsize=1.0)
            if not ok:
                tags[f"base_no_return:{classify_exc(base)}"] = 1
                continue
            d0 = digest(base)
            real = D.multiprocessing.Pool
            D.multiprocessing.Pool = VirtualPool
            try:
                VirtualPool.order = None
                ok, r = call(dating.method_call, method, ts, MU, dict(cfg, num_threads=2), popsize=1.0)
                k = len(VirtualPool.seen_keys or [])
                tags[f"distinct_likelihood_keys={k}"] = 1
                if k <= 5:
                    orders = list(itertools.permutations(range(k)))
                else:
                    orders = [tuple(list(range(k))[i:] + list(range(k))[:i]) for i in range(k)] + [tuple(range(k))[::-1]]
                for o in orders:
                    evals += 1
                    tags["mc_states"] = tags.get("mc_states", 0) + 1
                    tags["mc_transitions"] = tags.get("mc_transitions", 0) + k
                    VirtualPool.order = list(o)
                    ok, r = call(dating.method_call, method, ts, MU, dict(cfg, num_threads=2), popsize=1.0)
                    sub = {"method": method, "order": list(o)}
                    if not ok:
                        bad("completion_order_breaks_call", exc_text(r), sub)
                    elif digest(r) != d0:
                        bad("result_depends_on_completion_order", f"order {o} of keys {VirtualPool.seen_keys}", sub)
                    if list(o) != sorted(o):
                        keys.append(f"{cid}|{method}|{o}")
            finally:
                D.multiprocessing.Pool = real
                VirtualPool.order = None
            evals += 1
            ok, r = call(dating.method_call, method, ts, MU, dict(cfg, num_threads=1), popsize=1.0)
            if not ok or digest(r) != d0:
                bad("num_threads_1_differs", exc_text(r) if not ok else "", {"method": method})
        return {"evals": evals, "viol": viol, "tags": tags, "keys": keys}

    # ---- sequences sharing one prior object
    def one(prior_obj, method, space):
        return meta.outputs(method, ts, MU, {"priors": prior_obj, "probability_space": space})

    fresh = {}
    for method, space in CALLS:
        fresh[(method, space)] = one(tsdate.build_prior_grid(ts, population_size=1.0, timepoints=8), method, space)
    ref_prior = tsdate.build_prior_grid(ts, population_size=1.0, timepoints=8)
    ref_grid = np.array(ref_prior.grid_data, float)
    for L in (1, 2, 3):
        for seq in itertools.product(range(4), repeat=L):
            evals += 1
            tags["mc_states"] = tags.get("mc_states", 0) + L
            tags["mc_transitions"] = tags.get("mc_transitions", 0) + L
            shared = tsdate.build_prior_grid(ts, population_size=1.0, timepoints=8)
            sub = {"sequence": [CALLS[i] for i in seq]}
            for step, i in enumerate(seq):
                okf, f = fresh[CALLS[i]]
                oks, s = one(shared, *CALLS[i])
                if okf != oks:
                    bad("shared_prior_changes_success", f"step {step}: fresh ok={okf}, shared ok={oks}: {exc_text(s if not oks else f)}", sub)
                    break
                if okf and meta.compare(f, s, 1e-9, fields=("t", "mn", "vr", "mt")):
                    bad("shared_prior_changes_result", f"step {step}: {meta.compare(f, s, 1e-9, fields=('t', 'mn', 'vr', 'mt'))}", sub)
                    break
            g = np.array(shared.grid_data, float)
            if str(shared.probability_space).lower().startswith("log"):
                with np.errstate(all="ignore"):
                    g = np.exp(g)
            if g.shape != ref_grid.shape or not np.allclose(g, ref_grid, rtol=1e-12, atol=1e-300):
                bad("prior_object_corrupted_by_use", f"after {sub['sequence']}: max abs diff {np.max(np.abs(g - ref_grid)) if g.shape == ref_grid.shape else 'shape'}", sub)
            if L > 1:
                keys.append(f"{cid}|{seq}")
    return {"evals": evals, "viol": viol, "tags": tags, "keys": keys}


_CHILD = r"""
import sys, json
sys.path.insert(0, %(verif)r)
from mc import env
env.setup(); env.import_tsdate()
import importlib
C = importlib.import_module("checks.C09")
from mc import tsspace, dating
from mc.common import call, exc_text
out = {}
for c in json.loads(sys.argv[1]):
    ts = tsspace.add_mutations(tsspace.arg_ts(c["arg"]), c["mut"])
    for method, cfg in C.CONFIGS:
        ok, res = call(dating.method_call, method, ts, C.MU, dict(cfg, record_provenance=False), popsize=1.0)
        out[f"{c['arg']['id']}|{c['mut']}|{method}|{cfg}"] = C.digest(res) if ok else "EXC:" + exc_text(res, 60)
print("DIGESTS " + json.dumps(out))
"""


def finalize(results, cases):
    """(b) fresh processes under different hash seeds, and the real multiprocessing pool -- run from the parent"""
    viol = []
    stripe = [c for c in cases if c["part"] == "repeat"]
    stripe = stripe[:: max(1, len(stripe) // 12)][:12]
    in_proc = {}
    for r in results:
        c = cases[r["idx"]]
        if c["part"] == "repeat" and "digests" in r:
            for k, v in r["digests"].items():
                in_proc[f"{c['arg']['id']}|{c['mut']}|{k}"] = v
    verif = os.path.dirname(os.path.dirname(os.path.abspath(__file__)))
    arg = json.dumps([{"arg": c["arg"], "mut": c["mut"]} for c in stripe])
    procs = []
    for hs in ("0", "1", "2", "12345"):
        envv = dict(os.environ, PYTHONHASHSEED=hs)
        procs.append((hs, subprocess.Popen([sys.executable, "-c", _CHILD % {"verif": verif}, arg], env=envv, stdout=subprocess.PIPE, stderr=subprocess.DEVNULL, text=True)))
    got = {}
    for hs, p in procs:
        out, _ = p.communicate(timeout=1500)
        line = [l for l in out.splitlines() if l.startswith("DIGESTS ")]
        if p.returncode != 0 or not line:
            viol.append({"kind": "fresh_process_failed", "msg": f"PYTHONHASHSEED={hs} rc={p.returncode}", "facts": {}})
            continue
        got[hs] = json.loads(line[0][8:])
    n = 0
    for k in sorted(set().union(*[set(v) for v in got.values()]) if got else []):
        vals = {hs: v.get(k) for hs, v in got.items()}
        n += 1
        if len(set(vals.values())) != 1 or (k in in_proc and in_proc[k] != next(iter(vals.values()))):
            viol.append({"kind": "result_depends_on_process_or_hash_seed", "msg": f"{k}: {vals} in-process {in_proc.get(k)}", "facts": {}, "case": None})
    print(f"    fresh-process digests compared: {n} keys x {len(got)} hash seeds")
    # real pool, parent process (daemonic pool workers of the runner cannot fork)
    import tsdate

    m = 0
    for c in stripe[:4]:
        ts = tsspace.add_mutations(tsspace.arg_ts(c["arg"]), c["mut"])
        for method in ("inside_outside", "maximization"):
            ok, base = call(dating.method_call, method, ts, MU, {"record_provenance": False}, popsize=1.0)
            if not ok:
                continue
            for nt in (2, 4):
                ok, r = call(dating.method_call, method, ts, MU, {"record_provenance": False, "num_threads": nt}, popsize=1.0)
                m += 1
                if not ok or digest(r) != digest(base):
                    viol.append({"kind": "real_pool_result_differs", "msg": f"{c['arg']['id']} {method} num_threads={nt}: {exc_text(r) if not ok else 'digest differs'}", "facts": {}, "case": None})
    print(f"    real multiprocessing.Pool runs compared: {m}")
    return viol
