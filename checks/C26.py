"""C26 Changepoint helpers meet their specification."""

import itertools
import math

import numpy as np

PROPERTY = "C26"
LEVEL = "model_checking"
RULE = (
    "exhaustive small inputs: ALL count vectors in {0,1,2,5}^m, m<=5 (quick) / 7 (thorough), offsets {all ones, alternating 1,2, all twos, alternating 3,2 (a single observation exactly AT min_offset=2: the minimum is inactive, ties n == min_offset are reached)}, "
    "fixed helper: epochs 1..m+2; Poisson helper: penalties {0,2,10} x min_counts {0,1,3} x min_offset {0,2}. oracle: fixed = the "
    "definition in the statement (boundaries 0..n non-decreasing, interior boundary k = last index with cumulative fraction <= k/epochs; "
    "where a cumulative fraction equals k/epochs to within 4 ulp either neighbouring index is accepted because np.linspace and k/epochs "
    "round differently); Poisson = brute force over all 2^(m-1) segmentations (deviance with 0*log 0 = 0): the returned segmentation must "
    "be feasible and within 1e-9 of the optimum whenever a feasible segmentation exists. one evaluation = one helper call; non-trivial = "
    "m>=3; distinct = all"
)
ASSUMPTIONS = ["the helpers are private numba kernels called directly", "the whole-vector space below the bound is enumerated"]
NEEDS_TSDATE = True


def cases(tier, seed):
    M = 5 if tier == "quick" else 7
    out = []
    for m in range(1, M + 1):
        vecs = list(itertools.product((0.0, 1.0, 2.0, 5.0), repeat=m))
        chunk = 64
        for i in range(0, len(vecs), chunk):
            out.append({"m": m, "vecs": [list(v) for v in vecs[i : i + chunk]]})
    n = sum(4**m for m in range(1, M + 1))
    return {"cases": out, "states": n, "transitions": n, "bound": f"all {n} count vectors in {{0,1,2,5}}^m, m<={M}; options as in the rule", "exhaustive": True}


def dev(y, n):
    return 0.0 if y == 0 else -2 * y * (math.log(y) - math.log(n) - 1)


def run(case):
    from tsdate import rescaling

    m = case["m"]
    viol, tags, keys = [], {}, []
    evals = 0

    def bad(kind, msg, **facts):
        if sum(1 for v in viol if v["kind"] == kind and v["facts"] == facts and v["msg"]) < 3:
            viol.append({"kind": kind, "msg": msg, "facts": facts})
        else:
            tags["more_" + kind] = tags.get("more_" + kind, 0) + 1
            viol.append({"kind": kind, "msg": "", "facts": facts, "quiet": True})

    for counts in case["vecs"]:
        c = np.array(counts)
        tags["mc_states"] = tags.get("mc_states", 0) + 1
        tags["mc_transitions"] = tags.get("mc_transitions", 0) + 1
        if c.sum() > 0:
            Y = np.append(0.0, np.cumsum(c))
            Z = Y / Y[-1]
            for ep in range(1, m + 3):
                evals += 1
                try:
                    e = rescaling._fixed_changepoints(c, ep)
                except Exception as x:  # noqa: BLE001
                    bad("fixed_changepoints_raises", f"{counts} epochs={ep}: {type(x).__name__}: {x}")
                    continue
                ok = len(e) == ep + 1 and e[0] == 0 and e[-1] == m and bool(np.all(np.diff(e) >= 0))
                why = ""
                if ok:
                    for k in range(1, ep):
                        target = k / ep
                        idx = max(i for i in range(m + 1) if Z[i] <= target)
                        if e[k] != idx:
                            near = [i for i in range(m + 1) if abs(Z[i] - target) <= 4 * np.spacing(target)]
                            alt = {idx} | {i - 1 for i in near if i > 0} | set(near)
                            if int(e[k]) not in alt:
                                ok = False
                                why = f"boundary {k}: got {int(e[k])}, want {idx}"
                if not ok:
                    bad("fixed_changepoints_wrong", f"{counts} epochs={ep}: {e.tolist()} {why}")
                if m >= 3:
                    keys.append(f"F|{counts}|{ep}")
        for offs in ([1.0] * m, [1.0 + (i % 2) for i in range(m)], [2.0] * m, [3.0 - (i % 2) for i in range(m)]):
            o = np.array(offs)
            # all segmentations once per (counts, offsets)
            segs = []
            for cuts in itertools.product((0, 1), repeat=m - 1):
                br = [0] + [i + 1 for i, x in enumerate(cuts) if x] + [m]
                segs.append([(c[i:j].sum(), o[i:j].sum()) for i, j in zip(br[:-1], br[1:])])
            for pen, mc, mo in itertools.product((0.0, 2.0, 10.0), (0.0, 1.0, 3.0), (0.0, 2.0)):
                evals += 1
                best = math.inf
                for sg in segs:
                    if all(n >= mo and y >= mc for y, n in sg):
                        best = min(best, sum(dev(y, n) + pen for y, n in sg))
                facts = {"constraints_active_or_zero_counts": bool(min(counts) < mc or min(offs) < mo or 0.0 in counts)}
                try:
                    b = [int(x) for x in rescaling._poisson_changepoints(c, o, pen, mc, mo)]
                except Exception as x:  # noqa: BLE001
                    bad("poisson_changepoints_raises", f"{counts} {offs} pen={pen} mc={mc} mo={mo}: {type(x).__name__}: {x}", **facts)
                    continue
                if best == math.inf:
                    tags["no_feasible_segmentation"] = tags.get("no_feasible_segmentation", 0) + 1
                    continue
                feas = b[0] == 0 and b[-1] == m and all(x < y for x, y in zip(b[:-1], b[1:]))
                cost = math.inf
                if feas:
                    sg = [(c[i:j].sum(), o[i:j].sum()) for i, j in zip(b[:-1], b[1:])]
                    if all(n >= mo and y >= mc for y, n in sg):
                        cost = sum(dev(y, n) + pen for y, n in sg)
                if not cost <= best + 1e-9 * max(1.0, abs(best)):
                    bad("poisson_changepoints_not_optimal", f"counts {counts} offsets {offs} penalty {pen} min_counts {mc} min_offset {mo}: returned {b} cost {cost} but optimum is {best}", **facts)
                if m >= 3:
                    keys.append(f"P|{counts}|{offs}|{pen}|{mc}|{mo}")
    for v in viol:
        v.pop("quiet", None)
    return {"evals": evals, "viol": viol, "tags": tags, "keys": keys}
