"""C27 Constraint enforcement is minimal and idempotent."""

import itertools

import numpy as np
import tskit

from mc import dating, tsspace

PROPERTY = "C27"
LEVEL = "model_checking"
RULE = (
    "one evaluation = one util.constrain_ages call on (ARG DAG, fixed-node mask, unconstrained time vector from a complete "
    "product alphabet with ties and inversions, eps, iterations). oracle: iterations=0 -> out[u] == max(mean[u], max_c fl(out[c]+eps)) "
    "evaluated children-first, bit-exact (minimality); strictly feasible vectors returned bit-identically for every iteration "
    "count; f_k(f_j(x)) == f_j(x) bit-exactly for all j,k in the iteration menu (idempotence). non-trivial = the vector violates "
    "some constraint (some node is raised); distinct = (DAG, mask, vector, eps)"
)
ASSUMPTIONS = [
    "fixed (sample) nodes keep their valid input times in the unconstrained vector (two fixed nodes are never inverted: that input is invalid)",
    "time alphabet {0.5,1,2,3} (<=4 free nodes), {1,2,3} (5), {1,2} (6+) -> complete product per DAG",
]

EPS = [1e-8, 0.5, 1.0]
ITERS = [0, 1, 3, 100]


def warmup():
    import tsdate

    ts = tsspace.arg_ts(tsspace.universe(3, 2, 1)["args"][0])
    tsdate.util.constrain_ages(ts, ts.nodes_time.copy(), 1e-6, 2)


def cases(tier, seed):
    sp = tsspace.space(tier, renumber=("reverse", "rotate"))  # node ids not in time order as well
    out = []
    for a in sp.args:
        Hs = dating.H_menu(a, "thorough", hist=False)
        if "renumber" in a and tier == "quick":
            Hs = Hs[:2]  # renumbered variants: no fixed node / the first internal node fixed
        for H in Hs:
            out.append({"arg": a, "H": H})
    return {
        "cases": out,
        "states": sp.states,
        "transitions": sp.transitions,
        "bound": f"{sp.describe()} (3 node numberings) x every single internal node fixed (or none) x complete time-vector product x eps {EPS} x iterations {ITERS}",
        "exhaustive": True,
    }


def reference(ts, t, eps, children, order):
    exp = t.copy()
    for u in order:
        ch = children[u]
        if ch:
            m = max(exp[c] + eps for c in ch)
            if m > exp[u]:
                exp[u] = m
    return exp


def run(case):
    import tsdate

    ts = tsspace.arg_ts(case["arg"])
    if case["H"]["kind"] == "internal":
        ts = tsspace.flag_internal_samples(ts, case["H"]["nodes"])
    N = ts.num_nodes
    fixed = (ts.nodes_flags & tskit.NODE_IS_SAMPLE).astype(bool)
    free = [u for u in range(N) if not fixed[u]]
    children = {u: sorted({int(c) for p, c in zip(ts.edges_parent, ts.edges_child) if p == u}) for u in range(N)}
    order = sorted(range(N), key=lambda u: (ts.nodes_time[u], u))
    alpha = (0.5, 1.0, 2.0, 3.0) if len(free) <= 4 else ((1.0, 2.0, 3.0) if len(free) == 5 else (1.0, 2.0))
    ep, ec = ts.edges_parent, ts.edges_child
    viol, tags, keys = [], {}, []
    evals = 0
    ca = tsdate.util.constrain_ages

    def bad(kind, msg, sub):
        if len(viol) < 5:
            viol.append({"kind": kind, "msg": msg, "facts": {}, "sub": sub})

    for vals in itertools.product(alpha, repeat=len(free)):
        t = ts.nodes_time.copy()
        t[free] = vals
        for eps in EPS:
            sub = {"vals": list(vals), "eps": eps}
            strict = bool(np.all(t[ep] - t[ec] > eps))
            outs = {}
            for it in ITERS:
                try:
                    outs[it] = ca(ts, t.copy(), eps, it)
                except Exception as e:  # noqa: BLE001
                    bad("constrain_raised", f"{type(e).__name__}: {e} iterations={it}", sub)
                    outs[it] = None
                evals += 1
            o0 = outs[0]
            if o0 is not None:
                exp = reference(ts, t, eps, children, order)
                if not np.array_equal(o0, exp):
                    bad("not_minimal", f"t={t.tolist()} eps={eps}: got {o0.tolist()} want {exp.tolist()}", sub)
                if not np.array_equal(o0, t):
                    keys.append(f"{case['arg']['id']}|{case['H']}|{vals}|{eps}")
            for it in ITERS:
                o = outs[it]
                if o is None:
                    continue
                if strict and not np.array_equal(o, t):
                    bad("feasible_input_changed", f"iterations={it} t={t.tolist()} eps={eps} -> {o.tolist()}", sub)
                if np.any(o[ep] < o[ec] + eps):
                    bad("constraint_not_met", f"iterations={it} t={t.tolist()} eps={eps} -> {o.tolist()}", sub)
                for k in ITERS:
                    evals += 1
                    o2 = ca(ts, o.copy(), eps, k)
                    if not np.array_equal(o2, o):
                        bad("not_idempotent", f"f_{k}(f_{it}(x)) != f_{it}(x): x={t.tolist()} eps={eps}: {o.tolist()} -> {o2.tolist()}", sub)
            if strict:
                tags["strictly_feasible_vectors"] = tags.get("strictly_feasible_vectors", 0) + 1
            else:
                tags["infeasible_vectors"] = tags.get("infeasible_vectors", 0) + 1
    return {"evals": evals, "viol": viol, "tags": tags, "keys": keys}
