"""C32 Time metadata writing follows the set_metadata policy."""

import itertools
import json

import numpy as np
import tskit

from mc import dating, tsspace, xdecor
from mc.common import LogCapture, call, classify_exc, exc_text

PROPERTY = "C32"
LEVEL = "model_checking"
RULE = (
    "complete product: 9 states of the node table x 9 states of the mutation table {tsdate's own default schema with extra keys (a re-dated, annotated input); permissive JSON with the same annotation on every row; no schema & no metadata; permissive JSON with other "
    "fields; JSON additionalProperties=false; JSON with mn typed as string; struct codec with mn/vr members; struct codec without them; raw "
    "bytes without schema} x set_metadata {None, True, False} x 3 methods on 4 inputs. oracle = decision table from the statement, with "
    "'the schema can encode them' decided independently by a tskit encode/decode round trip of a probe row: False -> schema and metadata "
    "bytes untouched; None -> mn/vr added and every other field preserved when encodable or when the table has neither schema nor "
    "metadata, else table untouched AND a warning logged; True -> mn/vr always written (incompatible metadata cleared, default schema "
    "installed); whenever written, every row carries numeric mn and vr; maximization never writes; inside_outside never touches the "
    "mutation table. one evaluation = one date() call; non-trivial = state other than the empty one; distinct = all"
)
ASSUMPTIONS = ["4 inputs (single tree, two multi-tree ARGs, one with an above-root mutation)"]

STATES = ["empty", "permissive", "closed", "mn_string", "struct_with", "struct_without", "rawbytes", "tsdate_default_plus_extra", "permissive_uniform"]
CLOSED = tskit.MetadataSchema({"codec": "json", "type": "object", "properties": {"name": {"type": "string"}}, "additionalProperties": False})
MN_STRING = tskit.MetadataSchema({"codec": "json", "type": "object", "properties": {"mn": {"type": "string"}, "name": {"type": "string"}}})


def warmup():
    dating.warmup_all()


def cases(tier, seed):
    sp = tsspace.space("quick")
    picks = [sp.args[1], sp.args[len(sp.args) // 3], sp.args[-1], sp.args[len(sp.args) // 2]]
    out = []
    for i, a in enumerate(picks):
        for ns, ms in itertools.product(STATES, STATES):
            out.append({"arg": a, "node_state": ns, "mut_state": ms, "above_root": int(i == 3)})
    return {"cases": out, "states": len(out), "transitions": len(out) * 9, "bound": "4 inputs x 9x9 table states x set_metadata (3) x methods (3)", "exhaustive": True}


def set_state(table, state, n):
    if state == "empty":
        return
    if state == "permissive":
        xdecor._set_md(table, xdecor.PERMISSIVE, [{"name": f"x{i}", "k": i} for i in range(n)])
    elif state == "permissive_uniform":
        xdecor._set_md(table, xdecor.PERMISSIVE, [{"src": "pipeline"} for _ in range(n)])  # byte-identical rows
    elif state == "closed":
        xdecor._set_md(table, CLOSED, [{"name": f"x{i}"} for i in range(n)])
    elif state == "mn_string":
        xdecor._set_md(table, MN_STRING, [{"name": f"x{i}", "mn": "old"} for i in range(n)])
    elif state == "struct_with":
        xdecor._set_md(table, xdecor.STRUCT_WITH, [{"mn": -1.0, "vr": -1.0, "k": i} for i in range(n)])
    elif state == "struct_without":
        xdecor._set_md(table, xdecor.STRUCT_WITHOUT, [{"k": i} for i in range(n)])
    elif state == "rawbytes":
        table.packset_metadata([b"raw%d" % i for i in range(n)])
    elif state == "tsdate_default_plus_extra":
        # left by an earlier tsdate run + annotation: tsdate's own (open) default schema with other keys present
        from tsdate import schemas

        sch = schemas.default_node_schema if "flags" in table.column_names else schemas.default_mutation_schema
        xdecor._set_md(table, sch, [{"mn": 9.0, "vr": 9.0, "unsplit_node_id": i, "note": f"x{i}"} for i in range(n)])


def can_encode(table):
    """independent decision: does the table's schema round-trip a row extended by mn/vr?"""
    schema = table.metadata_schema
    if schema.schema is None:
        return False
    row = table[0].metadata if table.num_rows else {}
    if not isinstance(row, dict):
        return False
    probe = dict(row)
    probe.update({"mn": 1.5, "vr": 2.5})
    try:
        dec = schema.decode_row(schema.validate_and_encode_row(probe))
    except Exception:  # noqa: BLE001
        return False
    return isinstance(dec, dict) and dec.get("mn") == 1.5 and dec.get("vr") == 2.5


def run(case):
    import tsdate

    ts = tsspace.add_mutations(tsspace.arg_ts(case["arg"]), [1 + (i % 2) for i in range(tsspace.arg_ts(case["arg"]).num_edges)], above_root=case["above_root"])
    t = ts.dump_tables()
    set_state(t.nodes, case["node_state"], t.nodes.num_rows)
    set_state(t.mutations, case["mut_state"], t.mutations.num_rows)
    ts = t.tree_sequence()
    viol, tags, keys = [], {}, []
    evals = 0
    for method, set_md in itertools.product(("variational_gamma", "inside_outside", "maximization"), (None, True, False)):
        kw = {"rescaling_intervals": 0} if method == "variational_gamma" else {"population_size": 1.0}
        if set_md is not None:
            kw["set_metadata"] = set_md
        evals += 1
        with LogCapture() as lc:
            ok, out = call(tsdate.date, ts, mutation_rate=1.0, method=method, **kw)
        sub = {"method": method, "set_metadata": set_md}
        if not ok:
            viol.append({"kind": "date_raises", "msg": exc_text(out, 200), "facts": {"exc": type(out).__name__, "node_state": case["node_state"], "mut_state": case["mut_state"]}, "sub": sub})
            continue
        warned = [r.getMessage() for r in lc.warnings()]
        for tname, state in (("nodes", case["node_state"]), ("mutations", case["mut_state"])):
            tin, tout = getattr(ts.tables, tname), getattr(out.tables, tname)
            writes = method == "variational_gamma" or (method == "inside_outside" and tname == "nodes")

            def bad(kind, msg):
                viol.append({"kind": kind, "msg": f"{tname} ({state}): {msg}", "facts": {"table": tname, "state": state, "method": method, "set_metadata": str(set_md)}, "sub": sub})

            untouched = tin.metadata_schema == tout.metadata_schema and np.array_equal(tin.metadata, tout.metadata) and np.array_equal(tin.metadata_offset, tout.metadata_offset)
            if not writes or set_md is False:
                if not untouched:
                    bad("metadata_touched_but_should_not", f"schema {tin.metadata_schema.schema} -> {tout.metadata_schema.schema}")
                continue
            enc = can_encode(tin)
            empty = tin.metadata_schema.schema is None and len(tin.metadata) == 0
            if set_md is None and not (enc or empty):
                if not untouched:
                    bad("incompatible_metadata_changed_without_force", "")
                if not any(("metadata" in w.lower()) for w in warned):
                    bad("no_warning_when_metadata_skipped", f"warnings: {warned}")
                continue
            # mn / vr must have been written on every row
            rows = [r.metadata for r in tout]
            if not all(isinstance(r, dict) and isinstance(r.get("mn"), (int, float)) and isinstance(r.get("vr"), (int, float)) for r in rows):
                bad("time_metadata_missing_on_some_row", f"{rows[:3]}")
                continue
            if enc:
                if tin.metadata_schema != tout.metadata_schema:
                    bad("compatible_schema_replaced", f"{tout.metadata_schema.schema}")
                for i, (a, b) in enumerate(zip(tin, tout)):
                    oa = {k: v for k, v in a.metadata.items() if k not in ("mn", "vr")}
                    ob = {k: v for k, v in b.metadata.items() if k not in ("mn", "vr")}
                    if oa != ob:
                        bad("other_fields_not_preserved", f"row {i}: {a.metadata} -> {b.metadata}")
                        break
            else:
                want = tsdate.schemas.default_node_schema if tname == "nodes" else tsdate.schemas.default_mutation_schema
                if tout.metadata_schema != want:
                    bad("default_schema_not_installed", f"{tout.metadata_schema.schema}")
                if any(set(r) - {"mn", "vr"} for r in rows):
                    bad("incompatible_metadata_not_cleared", f"{rows[:2]}")
        if case["node_state"] != "empty" or case["mut_state"] != "empty":
            keys.append(f"{case['arg']['id']}|{case['node_state']}|{case['mut_state']}|{method}|{set_md}")
    return {"evals": evals, "viol": viol, "tags": tags, "keys": keys}
