"""C23 Rescaling credits each unphased singleton to its branches by phase probability."""

import itertools

import numpy as np
import tskit

from mc import dating, tsspace
from mc.common import call, classify_exc, exc_text
from checks import C22, C24

PROPERTY = "C23"
LEVEL = "model_checking"
RULE = (
    "inputs as C22 (diploid individuals, all 2^s phase assignments for s<=5) x match_segregating_sites {F,T} x rescaling_intervals {1,2}, "
    "singletons_phased=False. the harness wraps the module-level name variational.mutational_timescale (called by the real rescale step) and records the per-edge "
    "(count, span) array the rescaling really tallies with. oracle (independent tally): for every unphased singleton "
    "the two candidate edges are the leaf edges of its individual's two nodes at its position; expected count = direct tally of all "
    "other mutations + q on the edge the singleton is finally placed on + (1-q) on the other, q = fitted phase probability >= 1/2; total "
    "added per singleton == 1; edges outside blocks unchanged (1e-9). one evaluation = one dating call; non-trivial = some singleton is "
    "finally placed on its block's second edge; distinct = (input, assignment, options)"
)
ASSUMPTIONS = ["one mutation per site", "small-scope ARGs", "phase probabilities are read from the returned fit object"]


def warmup():
    dating.warmup_all()


def cases(tier, seed):
    spec = C22.cases(tier, seed)
    spec["cases"] = [c for c in spec["cases"] if c["s"] <= 5]
    spec["bound"] += " (s<=5) x match_segregating_sites x rescaling_intervals {1,2}"
    return spec


def run(case):
    import tsdate
    from tsdate import variational as V

    ts0 = dating.add_individuals(tsspace.add_mutations(tsspace.arg_ts(case["arg"]), case["mut"]))
    viol, tags, keys = [], {}, []
    evals = 0
    cid = f"{case['arg']['id']}|{case['mut']}"
    for flips in itertools.product((0, 1), repeat=case["s"]):
        ts = C22.rephase(ts0, flips)
        for seg, ri in itertools.product((False, True), (1, 2)):
            rec = {}
            real_mt = V.mutational_timescale

            def spy(nodes_time, likelihoods, *a, rec=rec, **k):
                rec.setdefault("used", np.array(likelihoods, copy=True))  # what the rescaling step really tallies with
                return real_mt(nodes_time, likelihoods, *a, **k)

            V.mutational_timescale = spy
            try:
                evals += 1
                ok, res = call(tsdate.variational_gamma, ts, mutation_rate=1.0, rescaling_intervals=ri, rescaling_iterations=2, match_segregating_sites=seg, singletons_phased=False, return_fit=True)
            finally:
                V.mutational_timescale = real_mt
            sub = {"flips": list(flips), "match_segregating_sites": seg, "rescaling_intervals": ri}
            if not ok:
                k = f"no_return:{classify_exc(res)}"
                tags[k] = tags.get(k, 0) + 1
                continue
            if "used" not in rec:
                viol.append({"kind": "rescaling_step_not_observed", "msg": "", "facts": {}, "sub": sub})
                continue
            out, fit = res
            # independent tally
            mask = np.zeros(ts.num_nodes, dtype=bool)
            mask[list(ts.samples())] = True
            ref, medge = C24.ref_counts(ts, mask, size_biased=not seg)
            exp = ref[:, 0].copy()
            final_node = {m.site: m.node for m in out.mutations()}
            second = False
            unph_edges = set()
            for ind in ts.individuals():
                a, b = (int(x) for x in ind.nodes)
                for tree in ts.trees():
                    unph_edges.update([tree.edge(a), tree.edge(b)])
            for m in ts.mutations():
                nd = ts.node(m.node)
                if not (nd.is_sample() and nd.individual >= 0):
                    continue
                a, b = (int(x) for x in ts.individual(nd.individual).nodes)
                tree = ts.at(ts.site(m.site).position)
                ea, eb = tree.edge(a), tree.edge(b)
                q = float(fit.mutation_phase[m.id])
                if np.isnan(q):
                    tags["nan_phase"] = tags.get("nan_phase", 0) + 1
                    exp[medge[m.id]] -= 1.0  # a skipped update is left out by the code (documented TODO)
                    continue
                fin = ea if final_node[m.site] == a else eb
                oth = eb if fin == ea else ea
                exp[medge[m.id]] -= 1.0  # remove the input placement (weight 1 on a leaf edge)
                exp[fin] += q
                exp[oth] += 1 - q
                if not (0.5 - 1e-12 <= q <= 1 + 1e-12):
                    viol.append({"kind": "phase_probability_out_of_range", "msg": f"mutation {m.id}: {q!r}", "facts": {}, "sub": sub})
                if fin == max(ea, eb):
                    second = True
            got = rec["used"][:, 0]
            if not np.allclose(got, exp, atol=1e-9, rtol=0):
                bad = [int(e) for e in np.flatnonzero(np.abs(got - exp) > 1e-9)]
                viol.append(
                    {"kind": "singleton_share_misallocated", "msg": f"edges {bad}: used {got[bad].tolist()} expected {exp[bad].tolist()}",
                     "facts": {"all_bad_edges_in_blocks": all(e in unph_edges for e in bad), "some_singleton_on_second_block_edge": second}, "sub": sub}
                )
            other = [e for e in range(ts.num_edges) if e not in unph_edges]
            if not np.allclose(rec["used"][other, 0], ref[other, 0], atol=1e-12, rtol=0) or not np.allclose(rec["used"][:, 1], ref[:, 1] * 1.0, atol=1e-12, rtol=1e-12):
                viol.append({"kind": "other_branches_changed", "msg": f"counts {rec['used'][other, 0].tolist()} vs {ref[other, 0].tolist()}", "facts": {}, "sub": sub})
            if second:
                keys.append(f"{cid}|{sub}")
    return {"evals": evals, "viol": viol, "tags": tags, "keys": keys}
