"""C28 Preprocessing removes only data-free regions and preserves genotypes."""

import itertools

import numpy as np
import tskit

from mc import tsspace
from mc.common import call, classify_exc, exc_text
from checks import C07

PROPERTY = "C28"
LEVEL = "model_checking"
RULE = (
    "inputs = bounded multi-locus ARGs with coordinates x10 (and x2^20) x missing data (every sample isolated over every locus) x site placement = EVERY non-empty subset of loci carrying "
    "mutations (one per edge present in the locus) x options: (minimum_gap in {1, 5, 1e6} x erase_flanks in {None, True, False}) or "
    "delete_intervals in {one interval, two intervals, the same as an ndarray} x split_disjoint in {None, False} x filter_sites. one "
    "evaluation = one preprocess_ts call. oracle: every site outside the removed intervals is kept with its position and genotypes (samples "
    "in order); node times of the output are times of input nodes; at every position outside the removed intervals the local tree has the "
    "same clades with the same times; inside them there is no topology; the removed regions are exactly the specification (flanks beyond "
    "first/last site -+1, gaps >= minimum_gap shrunk by 1 on each side, or the user's intervals); the output is already simplified; with "
    "split_disjoint on no non-sample node has a gap in its ancestry. non-trivial = some region was removed; distinct = all"
)
ASSUMPTIONS = ["small-scope ARGs, simplified inputs", "interval arithmetic on coordinates that are exact in binary (x10, x2^20 of small fractions)"]


def warmup():
    pass


def cases(tier, seed):
    specs = [(2, 3, 2), (3, 2, 1), (3, 3, 1), (3, 3, 2)] if tier == "quick" else [(2, 3, 2), (3, 2, 1), (3, 3, 1), (4, 2, 1), (3, 3, 2), (4, 3, 1), (4, 3, 2)]
    sp = tsspace.Space(specs)
    out = []
    for a in sp.args:
        L = a["L"]
        for k in range(1, L + 1):
            for loci in itertools.combinations(range(L), k):
                for c in (10.0,) if tier == "quick" else (10.0, 2.0**20):
                    out.append({"arg": a, "loci": list(loci), "c": c})
        # missing data: sample s isolated over locus l (nodes that are local roots only in a middle stretch)
        for s_, l_ in itertools.product(range(a["n"]), range(L)):
            out.append({"arg": a, "loci": list(range(L)), "c": 10.0, "K": [s_, l_]})
    return {"cases": out, "states": sp.states, "transitions": sp.transitions, "bound": f"{sp.describe()} x every non-empty subset of loci with sites x coordinate factor x option product (see rule)", "exhaustive": True}


def build(case):
    ts = tsspace.arg_ts(case["arg"])
    if case.get("K"):
        ts = tsspace.isolate_sample(ts, case["K"][0], [case["K"][1]])
    counts = [1 if int(e.left) in case["loci"] or any(int(e.left) <= l < int(e.right) for l in case["loci"]) else 0 for e in ts.edges()]
    # one mutation per edge, placed inside a chosen locus covered by the edge
    t = ts.dump_tables()
    per_locus = {}
    for e in ts.edges():
        for l in case["loci"]:
            if e.left <= l < e.right:
                per_locus.setdefault(l, []).append(e.child)
                break
    for l, nodes in sorted(per_locus.items()):
        for j, u in enumerate(nodes):
            s = t.sites.add_row(l + (j + 1) / (len(nodes) + 1) * 0.5 + 0.25, "A")
            t.mutations.add_row(s, u, derived_state="T")
    t.sort()
    t.build_index()
    t.compute_mutation_parents()
    return C07.stretch(t.tree_sequence(), case["c"])


def clades(tree, ts):
    out = {}
    for u in tree.nodes():
        if tree.num_children(u) >= 1 or tree.parent(u) != tskit.NULL:
            s = frozenset(tree.samples(u))
            if tree.num_children(u) > 0:
                out[s] = ts.nodes_time[u]
    return out


def spec_intervals(sites, L, minimum_gap, erase_flanks):
    iv = []
    if erase_flanks:
        if sites[0] - 1 > 0:
            iv.append((0.0, sites[0] - 1))
        if sites[-1] + 1 < L:
            iv.append((sites[-1] + 1, L))
    for a, b in zip(sites[:-1], sites[1:]):
        if b - a >= minimum_gap and b - 1 > a + 1:
            iv.append((a + 1, b - 1))
    return sorted(iv)


def run(case):
    import tsdate

    ts = build(case)
    if ts.num_sites == 0:
        return {"evals": 0, "viol": [], "tags": {"no_sites": 1}, "keys": []}
    viol, tags, keys = [], {}, []
    evals = 0
    c = case["c"]
    L = ts.sequence_length
    sites = ts.sites_position
    n = ts.num_samples
    plans = []
    for mg, ef in itertools.product((1 * c / 10, 5 * c / 10 * 1.0, 1e6 * c), (None, True, False)):
        plans.append({"minimum_gap": mg, "erase_flanks": ef})
    one = [[0.3 * c, 0.9 * c]]
    two = [[0.0, 0.2 * c], [1.1 * c, 1.6 * c]]
    plans += [{"delete_intervals": one}, {"delete_intervals": two}, {"delete_intervals": np.array(two)}]
    if case.get("K"):
        plans = [plans[0], plans[6], plans[-3]]  # missing-data inputs: a spread of the option menu
    for plan, sd, fs in itertools.product(plans, (None, False), (False, True)):
        kw = dict(plan)
        if sd is not None:
            kw["split_disjoint"] = sd
        if fs:
            kw["filter_sites"] = True
        evals += 1
        ok, out = call(tsdate.preprocess_ts, ts, **kw)
        sub = {k: (v.tolist() if isinstance(v, np.ndarray) else v) for k, v in kw.items()}
        if not ok:
            if classify_exc(out) != "clean":
                viol.append({"kind": "preprocess_raises", "msg": exc_text(out, 200), "facts": {"exc": type(out).__name__}, "sub": sub})
            else:
                tags["clean_rejections"] = tags.get("clean_rejections", 0) + 1
            continue

        def bad(kind, msg):
            viol.append({"kind": kind, "msg": msg, "facts": {}, "sub": sub})

        if "delete_intervals" in plan:
            iv = [tuple(float(x) for x in r) for r in np.asarray(plan["delete_intervals"]).tolist()]
        else:
            iv = spec_intervals(sites, L, plan["minimum_gap"], True if plan["erase_flanks"] is None else plan["erase_flanks"])

        def removed(x):
            return any(a <= x < b for a, b in iv)

        # sites
        keep = [i for i, x in enumerate(sites) if not removed(x)]
        if fs:
            # filter_sites may also drop sites that became monomorphic / unreferenced: only require kept sites to be a subset with right positions
            pos_out = list(out.sites_position)
            if not set(pos_out) <= set(sites[keep].tolist()):
                bad("unexpected_site_positions", f"{pos_out}")
        elif list(out.sites_position) != sites[keep].tolist():
            bad("sites_outside_deleted_intervals_not_kept", f"in {sites.tolist()} removed {iv} out {list(out.sites_position)}")
            continue
        if list(out.samples()) != list(range(n)) or out.num_samples != n:
            bad("samples_changed", f"{list(out.samples())}")
            continue
        # genotypes on kept sites
        gin = {ts.site(v.site.id).position: v.genotypes.copy() for v in ts.variants()}
        for v in out.variants():
            if not np.array_equal(gin[v.site.position], v.genotypes):
                bad("genotypes_changed", f"site at {v.site.position}: {gin[v.site.position].tolist()} -> {v.genotypes.tolist()}")
                break
        if not set(np.round(out.nodes_time, 12)) <= set(np.round(ts.nodes_time, 12)):
            bad("node_times_changed", f"{out.nodes_time.tolist()}")
        # local trees
        pts = sorted(set(ts.breakpoints()) | set(out.breakpoints()) | {x for r in iv for x in r})
        pts = [x for x in pts if 0 <= x <= L]
        for a, b in zip(pts[:-1], pts[1:]):
            x = (a + b) / 2
            ti, to = ts.at(x), out.at(x)
            if removed(x):
                if to.num_edges != 0:
                    bad("topology_left_inside_removed_interval", f"position {x}, removed {iv}")
                    break
            else:
                ci, co = clades(ti, ts), clades(to, out)
                if ci != co:
                    bad("local_tree_changed_outside_removed_intervals", f"position {x} (removed {iv}): {ci} -> {co}")
                    break
        # simplified
        s2 = out.simplify()
        if s2.num_nodes != out.num_nodes or s2.num_edges != out.num_edges:
            if (sd is None) and s2.num_nodes < out.num_nodes and s2.num_edges == out.num_edges:
                pass  # split copies are extra nodes that simplify would not merge back; edges identical
            else:
                bad("output_not_simplified", f"nodes {out.num_nodes}->{s2.num_nodes} edges {out.num_edges}->{s2.num_edges}")
        if sd is None:
            span = {}
            for e in out.edges():
                for u in (e.parent, e.child):
                    span.setdefault(u, []).append((e.left, e.right))
            for u, lst in span.items():
                if out.node(u).is_sample():
                    continue
                lst.sort()
                reach = lst[0][1]
                for l_, r_ in lst[1:]:
                    if l_ > reach:
                        bad("node_ancestry_has_gap_after_split", f"node {u}: {lst}")
                        break
                    reach = max(reach, r_)
        if iv:
            keys.append(f"{case['arg']['id']}|{case['loci']}|{case.get('K')}|{c}|{sub}")
            tags["runs_with_removed_regions"] = tags.get("runs_with_removed_regions", 0) + 1
    return {"evals": evals, "viol": viol, "tags": tags, "keys": keys}
