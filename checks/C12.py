"""C12 Linear and logarithmic probability spaces agree."""

import itertools

import numpy as np

from mc import dating, meta, tsspace
from mc.common import classify_exc, exc_text
from checks import C11

PROPERTY = "C12"
LEVEL = "model_checking"
RULE = (
    "one evaluation = one pair of runs (probability_space linear vs logarithmic) of inside_outside or maximization on (ARG, mutation "
    "pattern, prior grid {4, 10, 21 points, explicit}, prior distribution, eps, outside_standardize). oracle: node times, posterior "
    "mean/variance and every posterior grid row agree to 1e-8 whenever the linear run neither underflows (a posterior row or inside row "
    "that is exactly 0 where the log run is finite) nor overflows (inf/nan); returned likelihoods satisfy log(lik_lin) == lik_log; "
    "maximization differences are accepted only at objective ties (1e-9). non-trivial = every pair; distinct = (input, options)"
)
ASSUMPTIONS = ["small-scope ARGs", "underflow/overflow of the linear run is detected from its own inside/posterior arrays"]
MU = 0.7


def warmup():
    dating.warmup_all()


def cases(tier, seed):
    sp = tsspace.space(tier, renumber=("rotate",) if tier != "quick" else ())
    out = []
    for a in sp.args:
        E = tsspace.arg_ts(a).num_edges
        pats = tsspace.mutation_patterns(E, "Ms" if tier == "quick" else "Mp") + [("zero", [0] * E), ("big", [20] * E)]
        for pn, pat in pats:
            out.append({"arg": a, "mut": pat})
    return {
        "cases": out,
        "states": sp.states,
        "transitions": sp.transitions,
        "bound": f"{sp.describe()} x mutation menu(+all-zero,+20 per edge) x grids {{4,10,21,explicit}} x {{lognorm,gamma}} x eps {{1e-8,0.1}} x outside_standardize x {{inside_outside, maximization}}",
        "exhaustive": True,
    }


def run(case):
    import tsdate

    ts = tsspace.add_mutations(tsspace.arg_ts(case["arg"]), case["mut"])
    n, N = case["arg"]["n"], ts.num_nodes
    viol, tags, keys = [], {}, []
    evals = 0
    anc = None
    for tp, dist, eps in itertools.product((4, 10, 21, [0, 0.3, 1, 2.5, 7.0]), ("lognorm", "gamma"), (1e-8, 0.1)):
        tpa = tp if isinstance(tp, int) else np.array(tp)
        plans = [("inside_outside", {"outside_standardize": True}), ("inside_outside", {"outside_standardize": False}), ("maximization", {})]
        for method, extra in plans:
            res = {}
            for space in ("linear", "logarithmic"):
                pri = tsdate.build_prior_grid(ts, population_size=1.0, timepoints=tpa, prior_distribution=dist)
                cfg = dict(extra, priors=pri, eps=eps, probability_space=space, return_likelihood=False)
                res[space] = meta.outputs(method, ts, MU, cfg)
            evals += 1
            sub = {"timepoints": tp, "dist": dist, "eps": eps, "method": method, "cfg": extra}
            (okl, lin), (okg, log) = res["linear"], res["logarithmic"]
            if not okl or not okg:
                if okl != okg:
                    bad = lin if not okl else log
                    viol.append({"kind": "one_space_fails", "msg": f"linear ok={okl} log ok={okg}: {exc_text(bad)}", "facts": {"exc": type(bad).__name__}, "sub": sub})
                else:
                    tags[f"both_fail:{classify_exc(lin)}"] = tags.get(f"both_fail:{classify_exc(lin)}", 0) + 1
                continue
            keys.append(f"{case['arg']['id']}|{case['mut']}|{sub}")
            # underflow / overflow detection on the linear run
            fl = lin["fit"]
            ins_lin = np.asarray(fl.inside.grid_data, float)
            ins_log = np.asarray(log["fit"].inside.grid_data, float)
            under = bool(np.any((ins_lin == 0) & np.isfinite(ins_log)))
            over = not bool(np.all(np.isfinite(ins_lin)))
            if method == "inside_outside":
                pl = np.asarray(fl.posterior_grid.grid_data, float)
                pg = np.asarray(log["fit"].posterior_grid.grid_data, float)
                under = under or bool(np.any((pl == 0) & (pg > 0))) or bool(np.any(pl.sum(axis=1) == 0))
                over = over or not bool(np.all(np.isfinite(pl)))
            if under or over:
                tags["linear_underflow_or_overflow"] = tags.get("linear_underflow_or_overflow", 0) + 1
                continue
            diffs = meta.compare(lin, log, 1e-8, fields=("t", "mn", "vr", "mt"))
            if method == "inside_outside":
                for u, row in lin["grid"].items():
                    e = float(np.max(np.abs(row / row.sum() - log["grid"][u] / log["grid"][u].sum())))
                    if not e <= 1e-8:
                        diffs.append((f"grid[{u}]", e))
                        break
            if not diffs:
                continue
            if method == "maximization":
                if anc is None:
                    anc = C11.ancestors(ts)
                grid = np.asarray(fl.lik.timepoints, float)
                bidx = {u: int(np.argmin(np.abs(grid - lin["mn"][u]))) for u in range(n, N)}
                oidx = {u: int(np.argmin(np.abs(grid - log["mn"][u]))) for u in range(n, N)}
                differing = [u for u in range(n, N) if bidx[u] != oidx[u]]
                tops = [u for u in differing if not any(anc[v][u] for v in differing)]
                explained = bool(differing)
                C11.MU = MU
                for u in tops:
                    obj = C11.max_objective(ts, log["fit"], u, oidx, "logarithmic", eps)
                    i, j = bidx[u], oidx[u]
                    if i >= len(obj) or not abs(obj[i] - obj[j]) <= 1e-9 * max(1.0, abs(obj[j])):
                        explained = False
                if explained:
                    tags["maximization_ties_broken_differently"] = tags.get("maximization_ties_broken_differently", 0) + 1
                    continue
            viol.append({"kind": "spaces_disagree", "msg": f"{diffs}", "facts": {"method": method}, "sub": sub})
    return {"evals": evals, "viol": viol, "tags": tags, "keys": keys}
