"""C30 Unary-node detection is exact."""

import itertools

import numpy as np
import tskit

from mc import dating, tsspace
from mc.common import call, classify_exc, exc_text

PROPERTY = "C30"
LEVEL = "model_checking"
RULE = (
    "inputs = UNSIMPLIFIED terminals of the ARG generator (every internal node may be unary in some trees) and their "
    "simplified forms, plus internal-sample variants (unary sample nodes), x mutation patterns. one evaluation = one call of "
    "util.contains_unary_nodes (skip_samples T/F), prior.has_locally_unary_nodes, or a dating method with allow_unary=False. "
    "oracle = direct per-tree scan num_children(u)==1 (non-samples only / all nodes); detectors must equal it; "
    "variational_gamma must raise a clean error iff some non-sample node is locally unary, inside_outside/maximization iff some "
    "node is, and must return otherwise. non-trivial = input with at least one locally unary node or a multi-tree input "
    "without any; distinct = (input, call)"
)
ASSUMPTIONS = ["small-scope ARGs", "tskit Tree.num_children is trusted"]


def warmup():
    dating.warmup_all()


def cases(tier, seed):
    specs = tsspace.QUICK if tier == "quick" else tsspace.THOROUGH
    out = []
    st = tr = 0
    for simp in (False, True):
        sp = tsspace.Space(specs, simplify=simp)
        if not simp:
            st, tr = sp.states, sp.transitions
        for a in sp.args:
            out.append({"arg": a, "simplify": simp, "H": None})
            ts = tsspace.arg_ts(a, simplify=simp)
            inner = [u for u in range(a["n"], ts.num_nodes)]
            if tier == "quick":
                inner = inner[:1] + inner[-1:] if len(inner) > 1 else inner
            for u in inner:
                out.append({"arg": a, "simplify": simp, "H": [u]})
            if simp and a["L"] > 1:
                # missing data WITHOUT re-simplifying: isolating sample s over locus l leaves its former parent
                # with one child there (a node that turns unary purely by an edge removal / insertion at a flank)
                for s_, l_ in itertools.product(range(a["n"]), range(a["L"])):
                    out.append({"arg": a, "simplify": True, "H": None, "K": [s_, l_]})
    return {
        "cases": out,
        "states": st,
        "transitions": tr,
        "bound": "unsimplified and simplified terminals of U(n,L,R) for " + ",".join(map(str, specs)) + " x every single internal node flagged as sample x every (sample, locus) isolated without re-simplification x 2 mutation patterns x 3 methods + 3 detectors",
        "exhaustive": True,
    }


def reference(ts):
    any_unary = False
    nonsample_unary = False
    for tree in ts.trees():
        for u in tree.nodes():
            if tree.num_children(u) == 1:
                any_unary = True
                if not ts.node(u).is_sample():
                    nonsample_unary = True
    return any_unary, nonsample_unary


def run(case):
    import tsdate
    from tsdate import prior, util

    ts = tsspace.arg_ts(case["arg"], simplify=case["simplify"])
    if case.get("K"):
        ts = tsspace.isolate_sample(ts, case["K"][0], [case["K"][1]], simplify=False)
    if case["H"]:
        ts = tsspace.flag_internal_samples(ts, case["H"])
    viol, tags, keys = [], {}, []
    evals = 0
    any_unary, ns_unary = reference(ts)
    cid = f"{case['arg']['id']}|{case['simplify']}|{case['H']}|{case.get('K')}"
    tags["inputs_with_unary" if any_unary else "inputs_without_unary"] = 1
    if any_unary and not ns_unary:
        tags["inputs_with_only_sample_unary"] = 1

    def bad(kind, msg, sub):
        viol.append({"kind": kind, "msg": msg, "facts": {}, "sub": sub})

    for name, fn, want in (
        ("contains_unary_nodes(skip_samples=True)", lambda: util.contains_unary_nodes(ts), ns_unary),
        ("contains_unary_nodes(skip_samples=False)", lambda: util.contains_unary_nodes(ts, skip_samples=False), any_unary),
        ("has_locally_unary_nodes", lambda: prior.has_locally_unary_nodes(ts), any_unary),
    ):
        evals += 1
        ok, got = call(fn)
        if not ok:
            bad("detector_raised", f"{name}: {exc_text(got)}", {"detector": name})
        elif bool(got) != want:
            bad("detector_wrong", f"{name} returned {got}, direct scan says {want}", {"detector": name})
        if any_unary or ts.num_trees > 1:
            keys.append(f"{cid}|{name}")
    E = ts.num_edges
    for pn, pat in (("ones", [1] * E), ("mod3", [i % 3 for i in range(E)])):
        tsm = tsspace.add_mutations(ts, pat)
        contemporary = all(ts.nodes_time[s] == 0 for s in ts.samples())
        plans = [("variational_gamma", {"rescaling_intervals": 0}, ns_unary)]
        if contemporary:
            plans += [("inside_outside", {}, any_unary), ("maximization", {}, any_unary)]
        for method, cfg, want_reject in plans:
            evals += 1
            sub = {"method": method, "mut": pn}
            ok, res = call(dating.method_call, method, tsm, 1.0, dict(cfg, allow_unary=False), popsize=1.0)
            if want_reject:
                if ok:
                    bad("unary_input_accepted", f"{method} returned although a {'non-sample ' if method == 'variational_gamma' else ''}node is locally unary", sub)
                elif classify_exc(res) != "clean" or "unary" not in str(res).lower():
                    bad("unary_rejection_not_clean", f"{method}: {exc_text(res)}", sub)
            else:
                if not ok:
                    if "unary" in str(res).lower():
                        bad("non_unary_input_rejected", f"{method}: {exc_text(res)}", sub)
                    else:
                        k = f"other_failure:{method}:{classify_exc(res)}"
                        tags[k] = tags.get(k, 0) + 1
            if any_unary or ts.num_trees > 1:
                keys.append(f"{cid}|{method}|{pn}")
    return {"evals": evals, "viol": viol, "tags": tags, "keys": keys}
