"""C18 EP moment updates respect support and match the true tilted moments."""

import itertools
import math

import numpy as np

from mc import dating, tsspace
from mc.common import call

PROPERTY = "C18"
LEVEL = "exploration"
RULE = (
    "lattice A (support / finiteness / skip clauses): cavity shapes {0.3,1,2.5,30,900} x rates {1e-3,1,40} (both ends), mutation counts "
    "{0,1,5,100}, mutational spans {1e-3,1,50}, fixed ages {1e-3,1,1e3}: every one of the 14 moment functions either skips (all NaN) or "
    "returns finite moments with positive variance, mean inside the support (child below fixed parent, parent above fixed child, free "
    "parent older than free child, mutation between the ends) and phase in [0,1]; closed-form cases (child at time 0, both ends fixed, "
    "twin blocks) to 1e-12. lattice B (accuracy): every (cavity, likelihood) tuple that ARISES when variational_gamma is run on the bounded "
    "ARGs x mutation menu x sample decorators x phasing (reconstructed outside the kernels from fit.factors at the fixed point, rounded to "
    "3 digits and de-duplicated; plus the same cavities with the likelihood damped by 0.9 / 0.5, as EP's step-size control does): returned means agree with a reference integration to 5% (variances are reported, not judged). reference "
    "= one time integrated out analytically (a gamma integral), the remaining 1-D integral by mpmath quadrature with panels split at the "
    "integrand's mode +-{1,3,10} widths and an error estimate < 1e-6 (points that fail it are counted and must stay < 2%). one evaluation "
    "= one function call; non-trivial = lattice-B tuple or lattice-A point that does not skip; distinct = all"
)
ASSUMPTIONS = ["mpmath quadrature (20 digits) of the 1-D reduction is the reference; its own error estimate gates every comparison", "accuracy judged on the parameter ranges EP actually produces (lattice B)"]
NEEDS_TSDATE = True

SH = [0.3, 1.0, 2.5, 30.0, 900.0]
RT = [1e-3, 1.0, 40.0]
YS = [0.0, 1.0, 5.0, 100.0]
MUS = [1e-3, 1.0, 50.0]
TS = [1e-3, 1.0, 1e3]


def warmup():
    dating.warmup_all()


def cases(tier, seed):
    out = []
    cav = list(itertools.product(SH, RT))
    for ci in cav:
        out.append({"kind": "A", "ci": list(ci)})
    sp = tsspace.space(tier)
    args = sp.args if tier != "quick" else sp.args[::4]
    for a in args:
        out.append({"kind": "B", "arg": a})
    return {"cases": out, "bound": f"lattice A: {len(cav)}^2 cavity pairs x {len(YS)} counts x {len(MUS)} spans x {len(TS)} fixed ages; lattice B: tuples from {len(args)} ARGs x mutation menu x decorators", "exhaustive": True, "level": "exploration"}


# ------------------------------------------------------------------ reference integration
def _quad(logf, lo, hi):
    """integral of exp(logf) over (lo, hi) relative to its peak; returns (log scale, value, relerr)"""
    import mpmath

    if hi == math.inf:
        # locate the mode on a log grid
        xs = [lo + 10.0**e for e in np.linspace(-12, 12, 481)]
    else:
        w = hi - lo
        xs = [lo + w * t for t in np.concatenate([10.0 ** np.linspace(-12, -0.31, 120), 1 - 10.0 ** np.linspace(-0.3, -12, 120)])]
    vals = [logf(x) for x in xs]
    k = int(np.argmax(vals))
    m = xs[k]
    a = xs[max(k - 1, 0)]
    b = xs[min(k + 1, len(xs) - 1)]
    for _ in range(60):  # golden-section refinement of the mode
        c1 = a + 0.381966 * (b - a)
        c2 = a + 0.618034 * (b - a)
        if logf(c1) < logf(c2):
            a = c1
        else:
            b = c2
    m = (a + b) / 2
    top = logf(m)
    h = max(abs(m - lo), 1e-300) * 1e-3
    if hi != math.inf:
        h = min(h, (hi - m) * 0.5, (m - lo) * 0.5) if lo < m < hi else h
    h = max(h, 1e-300)
    d2 = (logf(m + h) - 2 * top + logf(m - h)) / (h * h) if (m - h > lo and (hi == math.inf or m + h < hi)) else 0.0
    width = 1.0 / math.sqrt(-d2) if d2 < 0 else (m - lo if hi == math.inf else (hi - lo) / 4)
    pts = {lo, hi}
    for kk in (1, 3, 10, 40):
        for sgn in (-1, 1):
            x = m + sgn * kk * width
            if lo < x < (hi if hi != math.inf else 1e300):
                pts.add(x)
    if lo < m < (hi if hi != math.inf else 1e300):
        pts.add(m)
    panel = sorted(pts)
    def f(x):
        xf = float(x)  # quadrature nodes may round onto an end point in double precision
        if not (lo < xf < hi):
            return mpmath.mpf(0)
        try:
            return mpmath.exp(logf(xf) - top)
        except (ValueError, OverflowError):
            return mpmath.mpf(0)

    val, err = mpmath.quad(f, [mpmath.mpf(p) if p != math.inf else mpmath.inf for p in panel], error=True, maxdegree=8)
    return top, val, (float(err / val) if val != 0 else math.inf)


def _ratio(logw, extra_logs, lo, hi):
    """E-ratios: returns [int exp(logw+e) / int exp(logw)] for each extra log-term e, plus worst relerr"""
    t0, v0, e0 = _quad(logw, lo, hi)
    out = []
    worst = e0
    for ex in extra_logs:
        t, v, e = _quad(lambda x: logw(x) + ex(x), lo, hi)
        worst = max(worst, e)
        out.append(float(v / v0) * math.exp(t - t0))
    return out, worst


def ref_moments(a_i, b_i, a_j, b_j, y, mu):
    """free parent i, free child j.  t_j = s t_i; t_i integrated out: K = y+a_i+a_j, R(s) = mu(1-s)+b_i+b_j s"""
    K = y + a_i + a_j

    def R(s):
        return mu * (1 - s) + b_i + b_j * s

    def logw(s):
        return y * math.log1p(-s) + (a_j - 1) * math.log(s) - K * math.log(R(s))

    (r1, r1s, r2, r2s2, r2s), err = _ratio(
        logw, [lambda s: -math.log(R(s)), lambda s: math.log(s) - math.log(R(s)), lambda s: -2 * math.log(R(s)), lambda s: 2 * math.log(s) - 2 * math.log(R(s)), lambda s: math.log(s) - 2 * math.log(R(s))], 0.0, 1.0
    )
    mn_i, mn_j = K * r1, K * r1s
    sq_i, sq_j, x_ij = K * (K + 1) * r2, K * (K + 1) * r2s2, K * (K + 1) * r2s
    return {"mn_i": mn_i, "mn_j": mn_j, "va_i": sq_i - mn_i**2, "va_j": sq_j - mn_j**2, "mn_m": (mn_i + mn_j) / 2, "err": err}


def ref_unphased(a_i, b_i, a_j, b_j, y, mu):
    """t_i = r u, t_j = r (1-u); r integrated out: K = y+a_i+a_j, R(u) = mu + b_i u + b_j (1-u)"""
    K = y + a_i + a_j

    def R(u):
        return mu + b_i * u + b_j * (1 - u)

    def logw(u):
        return (a_i - 1) * math.log(u) + (a_j - 1) * math.log1p(-u) - K * math.log(R(u))

    (r1u, r1v, pu, mm), err = _ratio(
        logw,
        [lambda u: math.log(u) - math.log(R(u)), lambda u: math.log1p(-u) - math.log(R(u)), lambda u: math.log(u), lambda u: math.log(u * u + (1 - u) ** 2) - math.log(R(u))],
        0.0, 1.0,
    )
    return {"mn_i": K * r1u, "mn_j": K * r1v, "pr": pu, "mn_m": K * mm / 2, "err": err}


def ref_rootward(t_j, a_i, b_i, y, mu):
    def logw(x):  # x = t_i - t_j
        return y * math.log(x) - mu * x + (a_i - 1) * math.log(x + t_j) - b_i * (x + t_j)

    (m1,), err = _ratio(logw, [lambda x: math.log(x + t_j)], 0.0, math.inf)
    return {"mn_i": m1, "err": err}


def ref_leafward(t_i, a_j, b_j, y, mu):
    def logw(x):  # x = t_j in (0, t_i)
        return y * math.log(t_i - x) + mu * x + (a_j - 1) * math.log(x) - b_j * x

    (m1,), err = _ratio(logw, [lambda x: math.log(x)], 0.0, t_i)
    return {"mn_j": m1, "err": err}


def ref_sideways(t_i, a_j, b_j, y, mu):
    def logw(x):  # x = t_j > 0
        return y * math.log(t_i + x) - mu * x + (a_j - 1) * math.log(x) - b_j * x

    (m1, pr, mm), err = _ratio(logw, [lambda x: math.log(x), lambda x: math.log(t_i) - math.log(t_i + x), lambda x: math.log(t_i * t_i + x * x) - math.log(2 * (t_i + x))], 0.0, math.inf)
    return {"mn_j": m1, "pr": pr, "mn_m": mm, "err": err}


# ------------------------------------------------------------------ checks
def finite_pos(*xs):
    return all(np.isfinite(x) and x > 0 for x in xs)


def run(case):
    from tsdate import approx

    viol, tags, keys = [], {}, []
    evals = 0
    worst = {}

    def bad(kind, msg):
        if sum(1 for v in viol if v["kind"] == kind) < 4:
            viol.append({"kind": kind, "msg": msg, "facts": {}})
        else:
            tags["more_" + kind] = tags.get("more_" + kind, 0) + 1

    def tag(k):
        tags[k] = tags.get(k, 0) + 1

    def judge(name, got, ref, point):
        if ref["err"] > 1e-6:
            tag("reference_unreliable")
            return
        tag("accuracy_points")
        for k, v in got.items():
            if k in ref:
                e = abs(v - ref[k]) / abs(ref[k])
                worst[name + "." + k] = max(worst.get(name + "." + k, 0.0), e)
                if not e <= 0.05:
                    bad("mean_differs_from_integral", f"{name}{point}: {k} = {v!r}, numerical integration gives {ref[k]!r} (rel err {e:.3g})")

    def support_node(name, res, point, t_lo=None, t_hi=None, pair=False):
        """res = (logl, mn, va[, mn2, va2]); returns False when skipped"""
        if all(np.isnan(x) for x in res):
            tag("skips")
            return False
        if not (np.isfinite(res[0]) and finite_pos(*res[1:])):
            bad("invalid_moments_returned", f"{name}{point}: {res}")
            return False
        if t_lo is not None and not res[1] > t_lo:
            bad("mean_outside_support", f"{name}{point}: mean {res[1]!r} not above fixed child age {t_lo!r}")
        if t_hi is not None and not res[1] < t_hi:
            bad("mean_outside_support", f"{name}{point}: mean {res[1]!r} not below fixed parent age {t_hi!r}")
        if pair and not res[1] > res[3]:
            bad("mean_outside_support", f"{name}{point}: parent mean {res[1]!r} <= child mean {res[3]!r}")
        return True

    def one_tuple(a_i, b_i, a_j, b_j, y, mu, accuracy):
        nonlocal evals
        pt = (a_i, b_i, a_j, b_j, y, mu)
        evals += 1
        r = approx.moments(*pt)
        if support_node("moments", r, pt, pair=True):
            m = approx.mutation_moments(*pt)
            evals += 1
            if not all(np.isnan(m)):
                if not finite_pos(*m) or not (r[3] < m[0] < r[1]):
                    bad("mutation_mean_outside_branch", f"mutation_moments{pt}: {m} with node means {r[3]!r} < . < {r[1]!r}")
            if accuracy:
                ref = ref_moments(*pt)
                judge("moments", {"mn_i": r[1], "mn_j": r[3]}, ref, pt)
                if not all(np.isnan(m)):
                    judge("mutation_moments", {"mn_m": m[0]}, ref, pt)
            keys.append(f"moments{pt}")
        evals += 1
        u = approx.unphased_moments(*pt)
        if support_node("unphased_moments", u, pt):
            mu_ = approx.mutation_unphased_moments(*pt)
            evals += 1
            if not all(np.isnan(mu_)):
                if not (0 <= mu_[0] <= 1 and finite_pos(mu_[1], mu_[2])):
                    bad("phase_or_mutation_moments_invalid", f"mutation_unphased_moments{pt}: {mu_}")
            if accuracy:
                ref = ref_unphased(*pt)
                judge("unphased_moments", {"mn_i": u[1], "mn_j": u[3]}, ref, pt)
                if not all(np.isnan(mu_)):
                    judge("mutation_unphased_moments", {"pr": mu_[0], "mn_m": mu_[1]}, ref, pt)
            keys.append(f"unphased{pt}")

    def one_fixed(t, a, b, y, mu, accuracy):
        nonlocal evals
        pt = (t, a, b, y, mu)
        evals += 1
        r = approx.rootward_moments(*pt)
        if support_node("rootward_moments", r, pt, t_lo=t):
            m = approx.mutation_rootward_moments(*pt)
            evals += 1
            if not (finite_pos(*m) and t < m[0] < r[1]):
                bad("mutation_mean_outside_branch", f"mutation_rootward_moments{pt}: {m}, parent mean {r[1]!r}")
            if accuracy:
                judge("rootward_moments", {"mn_i": r[1]}, ref_rootward(*pt), pt)
            keys.append(f"rootward{pt}")
        evals += 1
        l = approx.leafward_moments(*pt)
        if support_node("leafward_moments", l, pt, t_hi=t):
            m = approx.mutation_leafward_moments(*pt)
            evals += 1
            if not (finite_pos(*m) and l[1] < m[0] < t):
                bad("mutation_mean_outside_branch", f"mutation_leafward_moments{pt}: {m}, child mean {l[1]!r}")
            if accuracy:
                judge("leafward_moments", {"mn_j": l[1]}, ref_leafward(*pt), pt)
            keys.append(f"leafward{pt}")
        evals += 1
        s = approx.sideways_moments(*pt)
        if support_node("sideways_moments", s, pt):
            ms = approx.mutation_sideways_moments(*pt)
            evals += 1
            if not all(np.isnan(ms)) and not (-1e-9 <= ms[0] <= 1 + 1e-9 and finite_pos(ms[1], ms[2])):
                bad("phase_or_mutation_moments_invalid", f"mutation_sideways_moments{pt}: {ms}")
            if accuracy:
                ref = ref_sideways(*pt)
                judge("sideways_moments", {"mn_j": s[1]}, ref, pt)
                if not all(np.isnan(ms)):
                    judge("mutation_sideways_moments", {"pr": ms[0], "mn_m": ms[1]}, ref, pt)
            keys.append(f"sideways{pt}")

    def closed_forms(a, b, y, mu, t1, t2):
        nonlocal evals
        evals += 4
        s, r = a + y, b + mu
        got = approx.rootward_moments(0.0, a, b, y, mu)
        want = (math.lgamma(s) - s * math.log(r), s / r, s / r**2)
        if not all(abs(g - w) <= 1e-12 * max(1.0, abs(w)) for g, w in zip(got, want)):
            bad("closed_form_wrong", f"rootward_moments(0,{a},{b},{y},{mu}) = {got}, exact {want}")
        s2, r2 = a + y, b + 2 * mu
        got = approx.twin_moments(a, b, y, mu)
        want = (math.log(2) * y + math.lgamma(s2) - math.log(r2) * s2, s2 / r2, s2 / r2**2)
        if not all(abs(g - w) <= 1e-12 * max(1.0, abs(w)) for g, w in zip(got, want)):
            bad("closed_form_wrong", f"twin_moments({a},{b},{y},{mu}) = {got}, exact {want}")
        got = approx.mutation_twin_moments(a, b, y, mu)
        mn = s2 / r2 / 2
        want = (0.5, mn, (s2 + 1) * s2 / 3 / r2**2 - mn * mn)
        if not all(abs(g - w) <= 1e-12 * max(1.0, abs(w)) for g, w in zip(got, want)):
            bad("closed_form_wrong", f"mutation_twin_moments({a},{b},{y},{mu}) = {got}, exact {want}")
        hi, lo = max(t1, t2), min(t1, t2)
        if hi > lo:
            got = approx.mutation_edge_moments(hi, lo)
            want = ((hi + lo) / 2, (hi - lo) ** 2 / 12)
            if not all(abs(g - w) <= 1e-12 * max(1.0, abs(w)) for g, w in zip(got, want)):
                bad("closed_form_wrong", f"mutation_edge_moments({hi},{lo}) = {got}, exact {want}")
        got = approx.mutation_block_moments(t1, t2)
        pr = t1 / (t1 + t2)
        mn = pr * t1 / 2 + (1 - pr) * t2 / 2
        want = (pr, mn, pr * t1 * t1 / 3 + (1 - pr) * t2 * t2 / 3 - mn * mn)
        if not all(abs(g - w) <= 1e-12 * max(1.0, abs(w)) for g, w in zip(got, want)):
            bad("closed_form_wrong", f"mutation_block_moments({t1},{t2}) = {got}, exact {want}")

    if case["kind"] == "A":
        a_i, b_i = case["ci"]
        for (a_j, b_j), y, mu in itertools.product(itertools.product(SH, RT), YS, MUS):
            one_tuple(a_i, b_i, a_j, b_j, y, mu, accuracy=False)
        for y, mu, t in itertools.product(YS, MUS, TS):
            one_fixed(t, a_i, b_i, y, mu, accuracy=False)
            closed_forms(a_i, b_i, y, mu, t, TS[(TS.index(t) + 1) % 3])
        return {"evals": evals, "viol": viol, "tags": tags, "keys": keys, "worst": worst}

    # ---- lattice B: tuples that arise in real EP runs
    import tsdate

    a = case["arg"]
    base = tsspace.arg_ts(a)
    E = base.num_edges
    seen = set()
    inputs = []
    for pn, pat in tsspace.mutation_patterns(E, "Ms"):
        for H in dating.H_menu(a, "quick"):
            inputs.append(({"arg": a, "mut": pat, "H": H}, True))
        if a["n"] in (2, 4):
            inputs.append(({"arg": a, "mut": pat, "H": {"kind": "cont"}, "diploid": True}, False))
    for spec, phased in inputs:
        ts, _ = dating.build_input(spec)
        ok, res = call(tsdate.variational_gamma, ts, mutation_rate=1.0, rescaling_intervals=0, singletons_phased=phased, max_iterations=10, return_fit=True)
        if not ok:
            continue
        _, fit = res
        post = np.array(fit.node_posterior)
        fixed = fit.node_constraints[:, 0] == fit.node_constraints[:, 1]
        fe = np.array(fit.factors.edge)
        unph = set(int(e) for e in np.array(fit.block_edges).ravel()) if len(fit.block_edges) else set()
        for e in range(ts.num_edges):
            if e in unph:
                continue
            p, c = int(fit.edge_parents[e]), int(fit.edge_children[e])
            y, mu = (float(x) for x in fit.edge_likelihoods[e])
            cp = post[p] - fe[e, 0]
            cc = post[c] - fe[e, 1]
            if not fixed[p] and not fixed[c]:
                key = ("ff",) + tuple(float(f"{v:.3g}") for v in (cp[0] + 1, cp[1], cc[0] + 1, cc[1], y, mu))
            elif fixed[c] and not fixed[p]:
                key = ("fc",) + tuple(float(f"{v:.3g}") for v in (fit.node_constraints[c, 0], cp[0] + 1, cp[1], y, mu))
            elif fixed[p] and not fixed[c]:
                key = ("fp",) + tuple(float(f"{v:.3g}") for v in (fit.node_constraints[p, 0], cc[0] + 1, cc[1], y, mu))
            else:
                continue
            seen.add(key)
        fb = np.array(fit.factors.block)
        for bi in range(len(fit.block_edges)):
            j, k = int(fit.block_nodes[0][bi]), int(fit.block_nodes[1][bi])
            y, mu = (float(x) for x in fit.block_likelihoods[bi])
            if j == k or fixed[j] or fixed[k]:
                continue
            cj = post[j] - fb[bi, 0]
            ck = post[k] - fb[bi, 1]
            seen.add(("uu",) + tuple(float(f"{v:.3g}") for v in (cj[0] + 1, cj[1], ck[0] + 1, ck[1], y, mu)))
    # EP damps the likelihood of an edge by a step 0 < delta <= 1 (count and span together): the same cavities with
    # fractional counts are therefore also "ranges EP produces"
    for key in sorted(seen):
        if key[0] in ("ff", "uu"):
            for delta in ((0.5,) if key[0] == "ff" else (0.9, 0.5)):
                seen.add(key[:-2] + (float(f"{key[-2] * delta:.3g}"), float(f"{key[-1] * delta:.3g}")))
    for key in sorted(seen):
        kind, vals = key[0], key[1:]
        if kind == "ff":
            a_i, b_i, a_j, b_j, y, mu = vals
            if not (a_i > 0 and b_i > 0 and a_j > 0 and b_j >= 0):
                tag("improper_cavities_skipped")
                continue
            pt = vals
            evals += 1
            r = approx.moments(*pt)
            if support_node("moments", r, pt, pair=True):
                ref = ref_moments(*pt) if b_j > 0 else None
                if ref:
                    judge("moments", {"mn_i": r[1], "mn_j": r[3]}, ref, pt)
                    m = approx.mutation_moments(*pt)
                    if not all(np.isnan(m)):
                        judge("mutation_moments", {"mn_m": m[0]}, ref, pt)
                keys.append(f"B{key}")
        elif kind == "fc":
            t, a_, b_, y, mu = vals
            if not (a_ > 0 and b_ > 0):
                tag("improper_cavities_skipped")
                continue
            evals += 1
            r = approx.rootward_moments(t, a_, b_, y, mu)
            if support_node("rootward_moments", r, vals, t_lo=t if t > 0 else None):
                if t > 0:
                    judge("rootward_moments", {"mn_i": r[1]}, ref_rootward(t, a_, b_, y, mu), vals)
                keys.append(f"B{key}")
        elif kind == "fp":
            t, a_, b_, y, mu = vals
            if not (a_ > 0):
                tag("improper_cavities_skipped")
                continue
            evals += 1
            r = approx.leafward_moments(t, a_, b_, y, mu)
            if support_node("leafward_moments", r, vals, t_hi=t):
                judge("leafward_moments", {"mn_j": r[1]}, ref_leafward(t, a_, b_, y, mu), vals)
                keys.append(f"B{key}")
        else:
            a_i, b_i, a_j, b_j, y, mu = vals
            if not (a_i > 0 and b_i >= 0 and a_j > 0 and b_j >= 0 and mu + b_i > 0):
                tag("improper_cavities_skipped")
                continue
            evals += 1
            u = approx.unphased_moments(*vals)
            if support_node("unphased_moments", u, vals):
                ref = ref_unphased(*vals)
                judge("unphased_moments", {"mn_i": u[1], "mn_j": u[3]}, ref, vals)
                mu_ = approx.mutation_unphased_moments(*vals)
                if not all(np.isnan(mu_)):
                    judge("mutation_unphased_moments", {"pr": mu_[0], "mn_m": mu_[1]}, ref, vals)
                keys.append(f"B{key}")
    return {"evals": evals, "viol": viol, "tags": tags, "keys": keys, "worst": worst}


def finalize(results, cases):
    w = {}
    unreliable = pts = 0
    for r in results:
        for k, v in r.get("worst", {}).items():
            w[k] = max(w.get(k, 0.0), v)
        unreliable += r["tags"].get("reference_unreliable", 0)
        pts += r["tags"].get("accuracy_points", 0)
    print("    worst relative errors of means on lattice B: " + ", ".join(f"{k}={v:.3g}" for k, v in sorted(w.items())))
    print(f"    accuracy points judged: {pts}; reference unreliable (not judged): {unreliable}")
    if pts and unreliable > 0.02 * (pts + unreliable):
        return [{"kind": "harness_reference_unreliable_too_often", "msg": f"{unreliable} of {pts + unreliable}", "facts": {}, "case": None}]
    return []
