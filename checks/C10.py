"""C10 Inside-outside is exact on a single tree.

Space: every single-tree shape S(n) (ranked internal nodes, polytomies) x every
per-edge mutation count vector in {0,1,3}^E (or the pattern menu for the larger
shapes) x time grids x priors {lognorm, gamma, rows with zeros} x {linear,
logarithmic} x eps x outside_standardize.
Oracle: brute-force summation over all K^(internal nodes) grid assignments.
"""

import copy
import itertools
import math

import numpy as np

from mc import tsspace
from mc.common import call, exc_text

PROPERTY = "C10"
LEVEL = "model_checking"
RULE = (
    "one evaluation = one inside_outside call on (tree shape, per-edge mutation counts, grid, prior, "
    "probability space, eps, outside_standardize) compared with brute-force marginals and normalising "
    "constant; a case is non-trivial when the exact posterior differs from the normalised prior by >1e-3 "
    "for some node; distinct = distinct (shape, counts, grid, prior)"
)
ASSUMPTIONS = [
    "brute-force reference uses math.lgamma/exp for the Poisson pmf; tskit builds the input",
    "small-scope: n<=5 (quick) / n<=6 (thorough) leaves, grids of 4 and 6 points",
]

GRIDS = {"A4": [0.0, 0.5, 1.5, 4.0], "B6": [0.0, 0.2, 0.7, 1.5, 3.0, 6.0]}
MU = 0.7
TOL = 1e-9


def warmup():
    import tsdate

    ts = tsspace.add_mutations(tsspace.arg_ts(tsspace.universe(3, 1, 0)["args"][0]), [1, 1, 1, 1])
    for sp in ("linear", "logarithmic"):
        tsdate.inside_outside(ts, mutation_rate=1, population_size=1, probability_space=sp)


def cases(tier, seed):
    sp = tsspace.single_trees(5 if tier == "quick" else 6, renumber=("reverse", "rotate"))
    out = []
    combos = [(g, p) for g in GRIDS for p in ("lognorm", "gamma", "zeros")]
    for a in sp.args:
        n = a["n"]
        for g, p in combos:
            if tier == "quick":
                full = n <= 3 or (n == 4 and (g, p) in (("A4", "lognorm"), ("B6", "gamma")))
                if n == 5 and (g, p) not in (("A4", "lognorm"), ("B6", "zeros")):
                    continue
            else:
                full = n <= 4 or (n == 5 and (g, p) in (("A4", "lognorm"), ("A4", "zeros")))
            out.append({"arg": a, "grid": g, "prior": p, "menu": "all013" if full else "Mp"})
    return {
        "cases": out,
        "states": sp.states,
        "transitions": sp.transitions,
        "bound": f"{sp.describe()}; counts {{0,1,3}}^E where menu=all013 else pattern menu; grids {list(GRIDS)}; "
        "3 priors; 2 spaces; eps in {1e-6,0.1}; outside_standardize in {T,F}",
        "exhaustive": True,
    }


def _logpmf(m, lam):
    with np.errstate(divide="ignore", invalid="ignore"):
        return np.where(lam > 0, m * np.log(lam) - lam - math.lgamma(m + 1), np.where(m == 0, 0.0, -np.inf))


def run(case):
    import tsdate

    ts0 = tsspace.arg_ts(case["arg"])
    E = ts0.num_edges
    tp = np.array(GRIDS[case["grid"]])
    K = len(tp)
    internal = [u for u in range(ts0.num_nodes) if not ts0.node(u).is_sample()]
    pos = {u: i for i, u in enumerate(internal)}
    m = len(internal)
    idx = np.array(list(itertools.product(range(K), repeat=m)), dtype=int).reshape(-1, m)
    if case["menu"] == "all013":
        vectors = list(itertools.product((0, 1, 3), repeat=E))
    else:
        vectors = [tuple(v) for _, v in tsspace.mutation_patterns(E, "Mp")]
    # prior (built on the mutation-free tree: mutations do not enter the prior)
    dist = "gamma" if case["prior"] == "gamma" else "lognorm"
    base_prior = tsdate.build_prior_grid(ts0, population_size=1.0, timepoints=tp.copy(), prior_distribution=dist)
    if case["prior"] == "zeros":
        gd = base_prior.grid_data.copy()
        gd[:, 1] = 0.0
        if K > 4:
            gd[:, K - 1] = 0.0
        base_prior.grid_data = gd
    prow = {u: np.array(base_prior[u], dtype=float) for u in internal}
    pw = np.ones(len(idx))
    for u in internal:
        pw = pw * prow[u][idx[:, pos[u]]]
    edges = list(ts0.edges())
    valid = np.ones(len(idx), dtype=bool)
    viol, tags, keys = [], {}, []
    evals = 0

    def tag(k, n=1):
        tags[k] = tags.get(k, 0) + n

    for eps in (1e-6, 0.1):
        lam = []
        valid = np.ones(len(idx), dtype=bool)
        for e in edges:
            ip = idx[:, pos[e.parent]]
            if e.child in pos:
                ic = idx[:, pos[e.child]]
                valid &= ic <= ip
                dt = tp[ip] - tp[ic] + eps
            else:
                dt = tp[ip] - tp[0] + eps
            lam.append(dt * MU * e.span)
        lp = [{c: _logpmf(c, lam[j]) for c in (0, 1, 2, 3, 5)} for j in range(E)]
        for vec in vectors:
            logw = np.zeros(len(idx))
            for j, c in enumerate(vec):
                logw = logw + lp[j][c]
            w = np.where(valid, pw * np.exp(logw), 0.0)
            Z = w.sum()
            if not (Z > 0 and np.isfinite(Z)):
                tag("reference_Z_zero_skipped")
                continue
            marg = {u: np.bincount(idx[:, pos[u]], weights=w, minlength=K) / Z for u in internal}
            nontriv = any(np.max(np.abs(marg[u] - prow[u] / prow[u].sum())) > 1e-3 for u in internal)
            # 0, 1 or 2 extra mutations above the root: they lie on no edge and must not enter the model
            ts = tsspace.add_mutations(ts0, vec, above_root=(sum(vec) + len(vec)) % 3)
            for space in ("linear", "logarithmic"):
                for std in ((True, False) if eps == 1e-6 else (True,)):
                    evals += 1
                    ok, res = call(
                        tsdate.inside_outside,
                        ts,
                        mutation_rate=MU,
                        priors=copy.deepcopy(base_prior),
                        eps=eps,
                        probability_space=space,
                        outside_standardize=std,
                        return_fit=True,
                        return_likelihood=True,
                    )
                    sub = {"counts": list(vec), "space": space, "eps": eps, "standardize": std}
                    if not ok:
                        viol.append({"kind": "no_result", "msg": exc_text(res), "facts": {"exc": type(res).__name__}, "sub": sub})
                        continue
                    _, fit, lik = res
                    tag("returned")
                    post = fit.posterior_grid
                    npa = fit.node_posteriors()
                    worst = 0.0
                    for u in internal:
                        row = np.array(post[u], dtype=float)
                        err = float(np.max(np.abs(row - marg[u]))) if np.all(np.isfinite(row)) else float("inf")
                        worst = max(worst, err)
                        row2 = np.array([npa[u][nm] for nm in npa.dtype.names], dtype=float)
                        if not np.array_equal(row2, row):
                            viol.append({"kind": "node_posteriors_differs_from_grid", "msg": f"node {u}", "facts": {}, "sub": sub})
                    if worst > TOL:
                        viol.append(
                            {
                                "kind": "posterior_mismatch",
                                "msg": f"max abs error {worst:.3g} vs brute force",
                                "facts": {"space": space},
                                "sub": sub,
                                "expected": {str(u): marg[u].tolist() for u in internal},
                                "observed": {str(u): np.array(post[u]).tolist() for u in internal},
                            }
                        )
                    l = float(lik) if space == "linear" else float(np.exp(lik))
                    lerr = abs(l - Z) / Z
                    if space == "logarithmic":
                        lerr = min(lerr, abs(float(lik) - math.log(Z)) / max(1.0, abs(math.log(Z))))
                    if not lerr <= TOL:
                        viol.append(
                            {
                                "kind": "likelihood_mismatch",
                                "msg": f"returned {float(lik)!r} ({space}) vs exact Z={Z!r}",
                                "facts": {"space": space},
                                "sub": sub,
                            }
                        )
            if nontriv:
                keys.append(f"{case['arg']['id']}|{vec}|{case['grid']}|{case['prior']}|{eps}")
                tag("nontrivial_inputs")
    return {"evals": evals, "viol": viol, "tags": tags, "keys": keys}
