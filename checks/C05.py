"""C05 Variational posteriors are proper, precision-capped gamma distributions."""

import itertools

import numpy as np
import tskit

from mc import dating, tsspace
from mc.common import call, classify_exc

PROPERTY = "C05"
LEVEL = "model_checking"
RULE = (
    "one evaluation = one variational_gamma call with return_fit=True on (ARG, mutation vector incl. zero-mutation edges and "
    "single-mutation inputs, H, diploid individuals, max_iterations in {1,2,25}, max_shape in {1.5,2,10,1000}, rescaling in "
    "{off, 2 intervals, default}, singletons_phased); oracle on fit: non-sample nodes have finite mean,var>0 and mean^2/var <= "
    "max_shape(1+1e-9); mutation (mean,var) both NaN or both finite>0, NaN-for-no-reason counted; unphased singleton phase NaN or in "
    "[0.5,1]. non-trivial = the shape cap binds (within 1e-6) on some node or a NaN mutation/phase was observed; distinct = (input, options)"
)
ASSUMPTIONS = ["small-scope ARGs", "calls that raise are judged by C35"]


def warmup():
    dating.warmup_all()


def cases(tier, seed):
    sp = tsspace.space(tier, renumber=("reverse",))
    out = []
    for a in sp.args:
        E = tsspace.arg_ts(a).num_edges
        pats = tsspace.mutation_patterns(E, "Mp")
        if tier == "quick":
            pats = pats[:3] + pats[3:5] + pats[3 + E : 3 + E + 2]
        for (pn, pat) in pats:
            Hs = dating.H_menu(a, tier)
            for H in Hs:
                out.append({"arg": a, "mut": pat, "H": H, "above_root": int(pn == "mod3"), "diploid": False})
            if a["n"] % 2 == 0:
                out.append({"arg": a, "mut": pat, "H": {"kind": "cont"}, "above_root": 0, "diploid": True})
            if pn == "ones" and "renumber" not in a:
                # missing data (sample isolated over the last locus) and sites with mutations on several nodes
                if a["L"] > 1:
                    out.append({"arg": a, "mut": pat, "H": {"kind": "cont"}, "above_root": 0, "diploid": False, "K": [0, a["L"] - 1]})
                out.append({"arg": a, "mut": pat, "H": {"kind": "cont"}, "above_root": 0, "diploid": False, "merge_sites": True})
    return {
        "cases": out,
        "states": sp.states,
        "transitions": sp.transitions,
        "bound": f"{sp.describe()} x Mp menu x H x diploid x max_iterations x max_shape x rescaling x singletons_phased",
        "exhaustive": True,
    }


def run(case):
    ts, _ = dating.build_input(case)
    viol, tags, keys = [], {}, []
    evals = 0
    is_sample = (ts.nodes_flags & tskit.NODE_IS_SAMPLE).astype(bool)
    phs = (True, False) if case["diploid"] else (True,)
    for mi, ms, resc, ph in itertools.product((1, 2, 25), (1.5, 2.0, 10.0, 1000.0), (0, 2, None), phs):
        kw = {"max_iterations": mi, "max_shape": ms, "return_fit": True}
        if resc is not None:
            kw["rescaling_intervals"] = resc
        if not ph:
            kw["singletons_phased"] = False
        evals += 1
        ok, res = call(dating.method_call, "variational_gamma", ts, 1.0, kw)
        sub = {"cfg": kw}
        if not ok:
            k = f"no_return:{classify_exc(res)}"
            tags[k] = tags.get(k, 0) + 1
            continue
        tags["returned"] = tags.get("returned", 0) + 1
        out, fit = res

        def bad(kind, msg):
            viol.append({"kind": kind, "msg": msg, "facts": {}, "sub": sub})

        npo = fit.node_posteriors()
        mean, var = npo["mean"], npo["variance"]
        nontriv = False
        for u in np.flatnonzero(~is_sample):
            if not (np.isfinite(mean[u]) and np.isfinite(var[u]) and mean[u] > 0 and var[u] > 0):
                bad("improper_node_posterior", f"node {u}: mean {mean[u]!r} var {var[u]!r}")
                continue
            shape = mean[u] ** 2 / var[u]
            if shape > ms * (1 + 1e-9):
                bad("shape_above_cap", f"node {u}: shape {shape!r} > max_shape {ms}")
            if shape > ms * (1 - 1e-6):
                tags["cap_binds"] = tags.get("cap_binds", 0) + 1
                nontriv = True
        mpo = fit.mutation_posteriors()
        medge = fit.mutation_edges
        for m in range(ts.num_mutations):
            a, b = mpo["mean"][m], mpo["variance"][m]
            if np.isnan(a) and np.isnan(b):
                if medge[m] == tskit.NULL:
                    tags["nan_mutation_above_root"] = tags.get("nan_mutation_above_root", 0) + 1
                else:
                    tags["nan_mutation_skipped_update"] = tags.get("nan_mutation_skipped_update", 0) + 1
                nontriv = True
            elif not (np.isfinite(a) and np.isfinite(b) and a > 0 and b > 0):
                bad("improper_mutation_posterior", f"mutation {m}: mean {a!r} var {b!r}")
        if not ph:
            blk = fit.mutation_blocks
            for m in np.flatnonzero(blk != tskit.NULL):
                p = fit.mutation_phase[m]
                if np.isnan(p):
                    tags["nan_phase"] = tags.get("nan_phase", 0) + 1
                    nontriv = True
                elif not (0.5 <= p <= 1.0):
                    bad("phase_out_of_range", f"mutation {m}: phase {p!r}")
                else:
                    tags["phases_checked"] = tags.get("phases_checked", 0) + 1
        if nontriv:
            keys.append(f"{case['arg']['id']}|{case['mut']}|{case['H']}|{case['diploid']}|{case.get('K')}|{case.get('merge_sites')}|{kw}")
    return {"evals": evals, "viol": viol, "tags": tags, "keys": keys}
