"""C15 Node span tables behind the mixture prior are exact."""

import collections

import numpy as np

from mc import tsspace
from mc.common import call, classify_exc
from checks import C14

PROPERTY = "C15"
LEVEL = "model_checking"
RULE = (
    "one evaluation = SpansBySamples + MixturePrior on one input (ARG, optionally with sample s isolated over locus l and "
    "re-simplified: every (s,l)); oracle = direct per-tree tally with tskit (root_threshold=2): for each coalescent non-sample "
    "node the map (connected samples in tree, samples below) -> span; get_spans(u) equal as dicts to 1e-12 and summing to "
    "node_spans[u]; MixturePrior.prior_params mean/var (recovered from alpha,beta) equal the span-weighted mixture of the exact "
    "coalescent moments of C14's reference (1e-9). non-trivial = multi-tree input where some node has >=2 distinct (T,k) keys; distinct = inputs"
)
ASSUMPTIONS = ["inputs simplified, one topology-bearing root per tree", "coalescent reference moments from C14 (long double closed form)"]


def cases(tier, seed):
    sp = tsspace.space(tier, renumber=("reverse", "rotate"))
    out = []
    for a in sp.args + tsspace.wide_family():
        out.append({"arg": a, "K": None})
        if a["L"] > 1:
            for s in range(a["n"]):
                for l in range(a["L"]):
                    out.append({"arg": a, "K": [s, l]})
    return {
        "cases": out,
        "states": sp.states,
        "transitions": sp.transitions,
        "bound": f"{sp.describe()} + wide family W5..W7 (a node with 5-7 distinct descendant counts) x K(every sample x every locus isolated) x prior distributions",
        "exhaustive": True,
    }


def direct(ts):
    out = collections.defaultdict(lambda: collections.defaultdict(float))
    tot = collections.defaultdict(float)
    for tree in ts.trees(root_threshold=2):
        T = sum(1 for s in ts.samples() if tree.parent(s) != -1)
        for u in tree.nodes():
            if ts.node(u).is_sample() or tree.num_children(u) < 2:
                continue
            k = sum(1 for _ in tree.samples(u))
            out[u][(T, k)] += tree.span
            tot[u] += tree.span
    return out, tot


_REF = {}


def ref_moments(n):
    if n not in _REF:
        _REF[n] = C14.closed_ld(n)
    return _REF[n]


def run(case):
    from tsdate import prior

    ts = tsspace.arg_ts(case["arg"])
    if case["K"] is not None:
        ts = tsspace.isolate_sample(ts, case["K"][0], {case["K"][1]})
    viol, tags, keys = [], {}, []

    def bad(kind, msg):
        viol.append({"kind": kind, "msg": msg, "facts": {}})

    # validity precondition of the property: single topology-bearing root per tree, no unary nodes
    ok, sp = call(prior.SpansBySamples, ts)
    if not ok:
        pre = all(not t.has_multiple_roots for t in ts.trees(root_threshold=2)) and not any(
            t.num_children(u) == 1 for t in ts.trees() for u in t.nodes()
        )
        if pre:
            bad("spans_not_computed", f"{type(sp).__name__}: {sp}")
        else:
            tags["outside_domain:" + classify_exc(sp)] = 1
        return {"evals": 1, "viol": viol, "tags": tags, "keys": keys}
    ref, tot = direct(ts)
    nontriv = False
    for u in range(ts.num_nodes):
        if ts.node(u).is_sample():
            continue
        got = {}
        for T, arr in sp.get_spans(u).items():
            for k, v in zip(arr["descendant_tips"], arr["span"]):
                got[(int(T), int(k))] = got.get((int(T), int(k)), 0) + float(v)
        r = dict(ref[u])
        if set(got) != set(r) or any(abs(got[k] - r[k]) > 1e-12 for k in r):
            bad("span_table_mismatch", f"node {u}: got {got} expected {r}")
        if abs(sum(got.values()) - sp.node_spans[u]) > 1e-12 or abs(sp.node_spans[u] - tot[u]) > 1e-12:
            bad("spans_do_not_sum_to_node_span", f"node {u}: {sum(got.values())} vs node_spans {sp.node_spans[u]} vs direct {tot[u]}")
        if len(r) > 1:
            nontriv = True
    evals = 1
    for dist in ("lognorm", "gamma"):
        evals += 1
        ok, mp = call(prior.MixturePrior, ts, prior_distribution=dist)
        if not ok:
            bad("mixture_prior_failed", f"{type(mp).__name__}: {mp}")
            continue
        for u in range(ts.num_nodes):
            if ts.node(u).is_sample():
                continue
            al, be = (float(x) for x in mp.prior_params[u])
            if dist == "gamma":
                mean, var = al / be, al / be**2
            else:
                mean = float(np.exp(al + be / 2))
                var = float((np.exp(be) - 1) * np.exp(2 * al + be))
            w = sum(ref[u].values())
            em = ev = 0.0
            for (T, k), span in ref[u].items():
                M, V = ref_moments(T)
                em += span / w * float(M[k])
                ev += span / w * float(V[k] + M[k] * M[k])
            ev -= em * em
            if not (abs(mean - em) <= 1e-9 * em and abs(var - ev) <= 1e-9 * ev):
                bad("mixture_moments_mismatch", f"node {u} {dist}: mean {mean!r} vs {em!r}; var {var!r} vs {ev!r}")
    if nontriv:
        keys.append(f"{case['arg']['id']}|{case['K']}")
    tags["inputs_with_missing_samples"] = int(case["K"] is not None)
    return {"evals": evals, "viol": viol, "tags": tags, "keys": keys}
