"""C19 Special-function and gamma-fitting helpers are accurate."""

import itertools

import numpy as np

PROPERTY = "C19"
LEVEL = "exploration"
RULE = (
    "lattices: (i) digamma/trigamma on a log lattice of 1500 (quick) / 6000 (thorough) points of [1e-8,1e8] plus every branch cut-off "
    "of the code (1e-5, 8.5, 1e-4, 5) +-{0,1,2} ulp, betaln on the 40x40 product of a log lattice: relative error vs mpmath (40 digits) "
    "<= 2e-13 for digamma/trigamma (scaled by max(1,|ref|) near digamma's zero), 1e-13 of the lgamma terms for betaln; (ii) method-of-moments fit on a 40x40 (mean, cv) lattice: returned gamma has "
    "the requested mean and variance (1e-12); (iii) KL fit on (mean, shape) lattice incl. the 1e-4 asymptotic switch +-: returned gamma "
    "has the requested mean (1e-12) and mean-log (abs 1e-7), failure only where Jensen's inequality is violated; (iv) quantile fit for "
    "quantile pairs {(.25,.75),(.05,.95),(.1,.5)} x true shapes 0.3..5000 x rates x max_shape {2,1000}: P(alpha, beta*x1)=q1 and "
    "P(alpha, beta*x2)=q2 (1e-7) unless the shape would exceed the cap, then alpha==max_shape and P(max_shape, beta*x1)=q1; x1==x2 -> cap. "
    "one evaluation = one helper call; non-trivial = all; distinct = all"
)
ASSUMPTIONS = ["finite lattice of a continuous domain containing every branch boundary of the code", "mpmath (40 digits) is the reference"]
NEEDS_TSDATE = True


def cases(tier, seed):
    n = 1500 if tier == "quick" else 6000
    xs = np.exp(np.linspace(np.log(1e-8), np.log(1e8), n)).tolist()
    for c in (1e-5, 8.5, 1e-4, 5.0, 1.0, 2.0, 1.4616321449683623, 7.5, 9.5):
        for k in (-2, -1, 0, 1, 2):
            v = c
            for _ in range(abs(k)):
                v = float(np.nextafter(v, np.inf if k > 0 else 0))
            xs.append(v)
    out = [{"kind": "polygamma", "xs": xs[i : i + 100]} for i in range(0, len(xs), 100)]
    lat = np.exp(np.linspace(np.log(1e-6), np.log(1e6), 40)).tolist()
    out += [{"kind": "betaln", "p": p, "qs": lat} for p in lat]
    out += [{"kind": "mom", "mean": m, "cvs": np.exp(np.linspace(np.log(1e-3), np.log(1e2), 40)).tolist()} for m in lat]
    shapes = np.exp(np.linspace(np.log(0.05), np.log(3e5), 60 if tier == "quick" else 200)).tolist() + [5000.0, 4999.0, 5001.0, 1e4 / 2 * (1 + 1e-9)]
    out += [{"kind": "kl", "mean": m, "shapes": shapes} for m in (1e-6, 1e-3, 1.0, 37.0, 1e5)]
    qshapes = [0.3, 0.7, 1.0, 1.5, 1.99, 2.0, 2.01, 3.0, 10.0, 100.0, 999.0, 1000.0, 1001.0, 5000.0]
    out += [{"kind": "iqr", "q": list(q), "shapes": qshapes, "rates": [1e-6, 1.0, 3e4], "caps": [2.0, 1000.0]} for q in ((0.25, 0.75), (0.05, 0.95), (0.1, 0.5))]
    return {"cases": out, "bound": f"{len(xs)} polygamma points, 1600 betaln pairs, 1600 (mean,cv) pairs, {5 * len(shapes)} KL targets, {3 * len(qshapes) * 3 * 2} quantile targets", "exhaustive": True, "level": "exploration"}


def run(case):
    import mpmath
    from tsdate import approx, hypergeo

    mpmath.mp.dps = 40
    viol, tags, keys = [], {}, []
    evals = 0
    worst = {}

    def bad(kind, msg):
        if sum(1 for v in viol if v["kind"] == kind) < 4:
            viol.append({"kind": kind, "msg": msg, "facts": {}})

    def note(name, e):
        worst[name] = max(worst.get(name, 0.0), e)

    k = case["kind"]
    if k == "polygamma":
        for x in case["xs"]:
            for name, fn, ref in (("digamma", hypergeo._digamma, mpmath.digamma), ("trigamma", hypergeo._trigamma, lambda v: mpmath.polygamma(1, v))):
                evals += 1
                got = fn(x)
                want = ref(mpmath.mpf(x))
                e = float(abs(mpmath.mpf(got) - want) / max(1, abs(want)))
                note(name, e)
                if not e <= 2e-13:
                    bad(f"{name}_inaccurate", f"x={x!r}: {got!r} vs {float(want)!r} (scaled err {e:.2e})")
                keys.append(f"{name}|{x!r}")
    elif k == "betaln":
        p = case["p"]
        for q in case["qs"]:
            evals += 1
            got = hypergeo._betaln(p, q)
            want = mpmath.log(mpmath.beta(p, q)) if max(p, q) < 1e5 else mpmath.loggamma(p) + mpmath.loggamma(q) - mpmath.loggamma(p + q)
            # lgamma differences cancel: scale by the magnitude of the terms
            mag = max(1, abs(mpmath.loggamma(p)), abs(mpmath.loggamma(q)), abs(mpmath.loggamma(p + q)))
            e = float(abs(mpmath.mpf(got) - want) / mag)
            note("betaln", e)
            if not e <= 1e-13:
                bad("betaln_inaccurate", f"p={p!r} q={q!r}: {got!r} vs {float(want)!r} (err/terms {e:.2e})")
            keys.append(f"betaln|{p!r}|{q!r}")
    elif k == "mom":
        m = case["mean"]
        for cv in case["cvs"]:
            evals += 1
            var = (cv * m) ** 2
            a, b = approx.approximate_gamma_mom(m, var)
            shape = a + 1
            gm, gv = shape / b, shape / b**2
            if not (abs(gm - m) <= 1e-12 * m and abs(gv - var) <= 1e-12 * var):
                bad("moment_fit_wrong", f"mean {m!r} var {var!r}: got gamma mean {gm!r} var {gv!r}")
            keys.append(f"mom|{m!r}|{cv!r}")
        for badm, badv in ((0.0, 1.0), (1.0, 0.0), (-1.0, 1.0)):
            evals += 1
            try:
                approx.approximate_gamma_mom(badm, badv)
                bad("moment_fit_accepts_invalid", f"{badm},{badv}")
            except approx.KLMinimizationFailedError:
                pass
    elif k == "kl":
        m = case["mean"]
        for s in case["shapes"]:
            evals += 1
            S = mpmath.mpf(s)
            logx = mpmath.digamma(S) - mpmath.log(S / mpmath.mpf(m))  # E[log x] of Gamma(shape s, mean m)
            lx = float(logx)
            try:
                a, b = approx.approximate_gamma_kl(m, lx)
            except approx.KLMinimizationFailedError as e:
                if np.log(m) > lx:
                    bad("kl_fit_fails_on_valid_target", f"mean {m!r} shape {s!r} E[log]={lx!r}: {e}")
                else:
                    tags["kl_jensen_rounding_failures"] = tags.get("kl_jensen_rounding_failures", 0) + 1
                continue
            shape = a + 1
            gm = shape / b
            gl = mpmath.digamma(mpmath.mpf(shape)) - mpmath.log(mpmath.mpf(b))
            # conditioning: E[log] was rounded to double (abs err ~ulp(lx)); d(shape)/shape = d(D)/D with D = log m - E[log] ~ 1/(2 shape)
            tol = 1e-7 + 4 * np.spacing(abs(lx)) * 1.0
            if not (abs(gm - m) <= 1e-12 * m and abs(float(gl) - lx) <= tol):
                bad("kl_fit_wrong", f"mean {m!r} shape {s!r}: returned shape {shape!r} rate {b!r}: mean {gm!r}, E[log] {float(gl)!r} vs {lx!r}")
            keys.append(f"kl|{m!r}|{s!r}")
        for target in ((1.0, 0.5), (1.0, 0.0), (0.0, -1.0), (1.0, float("inf"))):
            evals += 1
            try:
                approx.approximate_gamma_kl(*target)
                bad("kl_fit_accepts_invalid", f"{target}")
            except approx.KLMinimizationFailedError:
                pass
    elif k == "iqr":
        q1, q2 = case["q"]

        def P(a, x):
            return mpmath.gammainc(mpmath.mpf(a), 0, mpmath.mpf(x), regularized=True)

        for s, r, cap in itertools.product(case["shapes"], case["rates"], case["caps"]):
            evals += 1
            from scipy.special import gammaincinv

            x1, x2 = gammaincinv(s, q1) / r, gammaincinv(s, q2) / r
            for (xa, xb) in ((x1, x2), (x1, x1)):
                try:
                    a, b = approx.approximate_gamma_iqr(q1, q2, xa, xb, cap)
                except approx.KLMinimizationFailedError as e:
                    bad("quantile_fit_fails", f"shape {s} rate {r} cap {cap} q {q1},{q2}: {e}")
                    continue
                shape = a + 1
                p1 = float(P(shape, b * xa))
                if xa == xb or s > cap * (1 + 1e-6):
                    if not (shape == cap and abs(p1 - q1) <= 1e-7):
                        bad("capped_quantile_fit_wrong", f"true shape {s} cap {cap} q1 {q1} x1 {xa!r} x2 {xb!r}: returned shape {shape!r}, P(shape, beta*x1)={p1!r}")
                elif s < cap * (1 - 1e-6):
                    p2 = float(P(shape, b * xb))
                    if not (abs(p1 - q1) <= 1e-7 and abs(p2 - q2) <= 1e-7 and abs(shape - s) <= 1e-5 * s):
                        bad("quantile_fit_wrong", f"true shape {s} rate {r} cap {cap}: returned shape {shape!r} rate {b!r}: P1 {p1!r} vs {q1}, P2 {p2!r} vs {q2}")
                else:
                    tags["shape_at_cap_boundary"] = tags.get("shape_at_cap_boundary", 0) + 1
                keys.append(f"iqr|{q1}|{s}|{r}|{cap}|{xa == xb}")
    return {"evals": evals, "viol": viol, "tags": tags, "keys": keys, "worst": worst}


def finalize(results, cases):
    w = {}
    for r in results:
        for k, v in r.get("worst", {}).items():
            w[k] = max(w.get(k, 0.0), v)
    print("    worst scaled errors: " + ", ".join(f"{k}={v:.2e}" for k, v in sorted(w.items())))
    return []
