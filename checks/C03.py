"""C03 Sample times are kept, except for the minimal push above dated children."""

import itertools

import numpy as np
import tskit

from mc import dating, tsspace
from mc.common import call, classify_exc

PROPERTY = "C03"
LEVEL = "model_checking"
RULE = (
    "one evaluation = one dating call on (ARG, mutation pattern, sample decorator H in {contemporary, historical leaf(s), "
    "every single / pair of internal nodes flagged as sample}, method, min_branch_length in {1e-8, 0.5, 2, 5 ranks}, "
    "constr_iterations in {None,0,1,1000}, VG options); oracle per sample: out == max(in, max_children fl(out[child]+mbl)) "
    "bit-exactly (so childless samples keep their exact input time). non-trivial = some sample with children was observed "
    "(kept or pushed); distinct = distinct (input, options)"
)
ASSUMPTIONS = ["small-scope ARGs", "calls that raise are judged by C35"]


def warmup():
    dating.warmup_all()


def H_all(a, tier):
    ts = tsspace.arg_ts(a)
    n = a["n"]
    inner = list(range(n, ts.num_nodes))
    out = [{"kind": "cont"}, {"kind": "hist", "leaf": 0}]
    if n >= 3:
        out.append({"kind": "hist2", "leaves": [0, n - 1]})
    for u in inner:
        out.append({"kind": "internal", "nodes": [u]})
    pairs = list(itertools.combinations(inner, 2))
    if tier == "quick":
        pairs = pairs[:2]
    for p in pairs:
        out.append({"kind": "internal", "nodes": list(p)})
    return out


def cases(tier, seed):
    sp = tsspace.space(tier)
    out = []
    for a in sp.args:
        E = tsspace.arg_ts(a).num_edges
        pats = tsspace.mutation_patterns(E, "Ms")
        pats = pats[:2] if tier == "quick" else pats
        for (pn, pat), H in itertools.product(pats, H_all(a, tier)):
            out.append({"arg": a, "mut": pat, "H": H})
            if H["kind"] == "internal" and pn == "ones":
                # rounding region: ages so large that child + min_branch_length == child in floating point
                out.append({"arg": a, "mut": pat, "H": H, "scale": 2.0**30})
    return {
        "cases": out,
        "states": sp.states,
        "transitions": sp.transitions,
        "bound": f"{sp.describe()} x mutation menu x H(all single internal samples, pairs, historical leaves) x methods x mbl x constr_iterations",
        "exhaustive": True,
    }


def build(case):
    H = case["H"]
    ts = tsspace.add_mutations(tsspace.arg_ts(case["arg"]), case["mut"])
    if H["kind"] == "internal":
        ts = tsspace.flag_internal_samples(ts, H["nodes"])
    elif H["kind"] == "hist":
        ts = tsspace.historical_leaf(ts, H["leaf"], 0.5)
    elif H["kind"] == "hist2":
        ts = tsspace.historical_leaf(ts, H["leaves"][0], 0.5)
        ts = tsspace.historical_leaf(ts, H["leaves"][1], 0.25)
    if case.get("scale"):
        ts = tsspace.scale_times(ts, case["scale"])
    return ts


def run(case):
    ts = build(case)
    viol, tags, keys = [], {}, []
    evals = 0
    cont = case["H"]["kind"] == "cont"
    samples = list(ts.samples())
    children = {s: sorted(set(int(c) for c in ts.edges_child[ts.edges_parent == s])) for s in samples}
    plans = [("variational_gamma", {"rescaling_intervals": 0}), ("variational_gamma", {"rescaling_intervals": 2}), ("variational_gamma", {})]
    if cont:
        plans += [("inside_outside", {}), ("maximization", {})]
    for (method, cfg), mbl, ci in itertools.product(plans, (None, 0.5, 2.0, 5.0), (None, 0, 1, 1000)):
        kw = dict(cfg)
        if mbl is not None:
            kw["min_branch_length"] = mbl
        if ci is not None:
            kw["constr_iterations"] = ci
        evals += 1
        sc = case.get("scale", 1.0)
        if sc != 1.0 and mbl is not None:
            continue  # the rounding region is driven by the default 1e-8
        ok, res = call(dating.method_call, method, ts, 1.0 / sc, kw, popsize=sc)
        sub = {"method": method, "cfg": kw}
        if not ok:
            k = f"no_return:{method}:{classify_exc(res)}"
            tags[k] = tags.get(k, 0) + 1
            continue
        tags["returned:" + method] = tags.get("returned:" + method, 0) + 1
        eff = 1e-8 if mbl is None else mbl
        tin, tout = ts.nodes_time, res.nodes_time
        seen_parent_sample = False
        for s in samples:
            ch = children[s]
            if not ch:
                tags["childless_samples"] = tags.get("childless_samples", 0) + 1
                if tout[s] != tin[s]:
                    viol.append({"kind": "childless_sample_moved", "msg": f"sample {s}: {tin[s]!r} -> {tout[s]!r}", "facts": {}, "sub": sub})
                continue
            seen_parent_sample = True
            need = max(tout[c] + eff for c in ch)
            oldest = max(tout[c] for c in ch)
            if need == oldest:
                # child + mbl rounds to the child: the smallest admissible step that still leaves room for a mutation
                # strictly inside the branch is two representable values (see fix F6)
                need = float(np.nextafter(np.nextafter(oldest, np.inf), np.inf))
                tags["rounding_region_parents"] = tags.get("rounding_region_parents", 0) + 1
            want = max(tin[s], need)
            if tout[s] != want:
                kind = "sample_pushed_too_far" if tout[s] > want else "sample_not_pushed_enough"
                if need <= tin[s]:
                    kind = "sample_with_children_moved_needlessly"
                viol.append(
                    {"kind": kind, "msg": f"sample {s}: in {tin[s]!r} out {tout[s]!r} expected {want!r} (children {ch}, out {[tout[c] for c in ch]})", "facts": {}, "sub": sub}
                )
            elif want > tin[s]:
                tags["samples_pushed_minimally"] = tags.get("samples_pushed_minimally", 0) + 1
            else:
                tags["parent_samples_kept"] = tags.get("parent_samples_kept", 0) + 1
        if seen_parent_sample:
            keys.append(f"{case['arg']['id']}|{case['mut']}|{case['H']}|{case.get('scale')}|{method}|{kw}")
    return {"evals": evals, "viol": viol, "tags": tags, "keys": keys}
