"""C16 Discretised prior grids hold the right probability masses."""

import itertools
import math

import numpy as np
import tskit

from mc import tsspace
from mc.common import call, classify_exc
from checks import C14, C15

PROPERTY = "C16"
LEVEL = "model_checking"
RULE = (
    "one evaluation = one build_prior_grid call on (tree sequence, timepoints = integer 2..40 or explicit grid, prior "
    "distribution, population size = scalar / 3-epoch PopulationSizeHistory / dict); oracle: timepoints strictly increasing from 0 "
    "and bit-identical to an explicit user grid; each non-sample row == diff of the reference cdf (parameters = moment-matched "
    "span-weighted coalescent mixture from the C14/C15 references, evaluated on the reference coalescent-scale grid) with 0 at index 0, "
    "divided by its maximum, abs 1e-10; nonfixed_nodes == non-samples; sample lookups are scalars. non-trivial = grid with >=3 points "
    "and a node whose row is not a single 1; distinct = (input, options)"
)
ASSUMPTIONS = [
    "lognormal cdf via math.erfc, gamma cdf via mpmath regularised incomplete gamma (30 digits)",
    "coalescent scale = integral of 1/(2N(t)) computed by an independent piecewise loop",
]

GRIDS = [
    [0, 10, 50.0, 200, 1000],
    [0, 1, 2, 3.0],
    [0, 0.1, 0.7, 3.3, 1e3 / 3],
    [0, 1e-3, 1 / 3, 7 / 3, 1e5 / 7],
]
POPS = [("1", 1), ("0.5", 0.5), ("1e4", 1e4), ("1234.5", 1234.5), ("hist", {"population_size": [3.0, 6.0, 1.0], "time_breaks": [1.5, 40.0]})]


def comb_tree(n):
    t = tskit.TableCollection(1.0)
    for _ in range(n):
        t.nodes.add_row(flags=1, time=0)
    prev = 0
    for i in range(1, n):
        u = t.nodes.add_row(flags=0, time=i)
        t.edges.add_row(0, 1, u, prev)
        t.edges.add_row(0, 1, u, i)
        prev = u
    t.sort()
    return t.tree_sequence()


def cases(tier, seed):
    sp = tsspace.space("quick", renumber=("reverse", "rotate"))
    out = [{"tree": {"arg": a}} for a in sp.args]
    out += [{"tree": {"comb": n}} for n in range(5, 13)]
    out += [{"tree": {"arg": a}} for a in tsspace.wide_family()]
    if tier == "thorough":
        sp2 = tsspace.space("thorough", renumber=("reverse", "rotate"))
        out = [{"tree": {"arg": a}} for a in sp2.args] + [{"tree": {"comb": n}} for n in range(5, 13)] + [{"tree": {"arg": a}} for a in tsspace.wide_family()]
    return {
        "cases": out,
        "states": sp.states,
        "transitions": sp.transitions,
        "bound": "Aq ARGs (3 node numberings) + wide family W5..W7 + comb trees n=5..12 x timepoints {2..40 integer, 4 explicit grids} x {lognorm,gamma} x population size {1,0.5,1e4,1234.5,3-epoch history as object and as dict}",
        "exhaustive": True,
    }


def to_coalescent(t, pop):
    """independent piecewise integral of 1/(2N)"""
    if not isinstance(pop, dict):
        return np.asarray(t, float) / (2.0 * pop)
    sizes = pop["population_size"]
    breaks = [0.0] + list(pop["time_breaks"]) + [math.inf]
    out = []
    for x in np.asarray(t, float):
        acc = 0.0
        for i, N in enumerate(sizes):
            lo, hi = breaks[i], breaks[i + 1]
            if x > lo:
                acc += (min(x, hi) - lo) / (2.0 * N)
        out.append(acc)
    return np.array(out)


def ref_cdf(dist, alpha, beta, x):
    import mpmath

    out = []
    for v in x:
        if v <= 0:
            out.append(0.0)
        elif dist == "lognorm":
            z = (math.log(v) - alpha) / math.sqrt(2 * beta)
            out.append(0.5 * math.erfc(-z))
        else:
            out.append(float(mpmath.gammainc(alpha, 0, beta * v, regularized=True)))
    return np.array(out)


def run(case):
    import tsdate

    if "arg" in case["tree"]:
        ts = tsspace.arg_ts(case["tree"]["arg"])
        tid = case["tree"]["arg"]["id"]
    else:
        ts = comb_tree(case["tree"]["comb"])
        tid = f"comb{case['tree']['comb']}"
    viol, tags, keys = [], {}, []
    evals = 0
    nonsample = [u for u in range(ts.num_nodes) if not ts.node(u).is_sample()]
    ref, tot = C15.direct(ts)
    # reference mixture moments (coalescent units)
    mom = {}
    for u in nonsample:
        w = sum(ref[u].values())
        em = ev = 0.0
        for (T, k), span in ref[u].items():
            M, V = C15.ref_moments(T)
            em += span / w * float(M[k])
            ev += span / w * float(V[k] + M[k] * M[k])
        mom[u] = (em, ev - em * em)
    small = ts.num_nodes > 9 or (isinstance(case["tree"].get("arg"), dict) and "renumber" in case["tree"]["arg"])
    tps = [("int", k) for k in ((2, 3, 5, 20, 40) if small else range(2, 41))] + [("grid", i) for i in range(len(GRIDS))]
    for (tk, tv), dist, (pname, pop) in itertools.product(tps, ("lognorm", "gamma"), POPS):
        forms = [("obj", pop)]
        if isinstance(pop, dict):
            forms = [("obj", tsdate.demography.PopulationSizeHistory(**pop)), ("dict", pop)]
        for form, popv in forms:
            evals += 1
            tparg = tv if tk == "int" else np.array(GRIDS[tv], dtype=float)
            sub = {"timepoints": tv if tk == "int" else GRIDS[tv], "dist": dist, "pop": pname, "form": form}
            ok, pri = call(tsdate.build_prior_grid, ts, popv, timepoints=tparg, prior_distribution=dist)

            def bad(kind, msg, **facts):
                viol.append({"kind": kind, "msg": msg, "facts": dict(facts, form=form), "sub": sub})

            if not ok:
                bad("no_prior_returned", f"{type(pri).__name__}: {str(pri)[:200]}", exc=type(pri).__name__)
                continue
            tp = np.asarray(pri.timepoints, float)
            if not (tp[0] == 0 and np.all(np.diff(tp) > 0)):
                bad("grid_not_increasing_from_zero", f"{tp.tolist()}")
                continue
            if tk == "grid" and not np.array_equal(tp, np.array(GRIDS[tv], float)):
                d = tp - np.array(GRIDS[tv], float)
                bad("explicit_grid_not_returned_exactly", f"differences {d.tolist()}", ulps=True)
            if sorted(int(u) for u in pri.nonfixed_nodes) != nonsample:
                bad("nonfixed_nodes_wrong", f"{pri.nonfixed_nodes}")
            for s in ts.samples():
                if np.ndim(pri[s]) != 0:
                    bad("sample_has_grid_row", f"sample {s}")
            ctp = to_coalescent(GRIDS[tv] if tk == "grid" else tp, pop)
            for u in nonsample:
                em, ev = mom[u]
                if dist == "lognorm":
                    be = math.log(ev / em**2 + 1)
                    al = math.log(em) - 0.5 * be
                else:
                    al, be = em * em / ev, em / ev
                cdf = ref_cdf(dist, al, be, ctp)
                mass = np.concatenate([[0.0], np.diff(cdf)])
                if not mass.max() > 0:
                    tags["degenerate_reference_row"] = tags.get("degenerate_reference_row", 0) + 1
                    continue
                mass = mass / mass.max()
                row = np.asarray(pri[u], float)
                err = float(np.max(np.abs(row - mass))) if row.shape == mass.shape else float("inf")
                if not err <= 1e-10:
                    bad("prior_row_mismatch", f"node {u}: max abs err {err:.3g}; got {row.tolist()} want {mass.tolist()}")
                    break
                if len(tp) >= 3 and np.sum(row > 0) > 1:
                    keys.append(f"{tid}|{sub}")
    keys = sorted(set(keys))
    return {"evals": evals, "viol": viol, "tags": tags, "keys": keys}
