"""C29 Splitting disjoint nodes preserves every local tree."""

import itertools

import numpy as np
import tskit

from mc import tsspace, xdecor
from mc.common import call, classify_exc, exc_text

PROPERTY = "C29"
LEVEL = "model_checking"
RULE = (
    "inputs = bounded ARGs (which contain nodes present in loci {0,2} but absent in locus 1), each also with every single locus and every "
    "pair of loci deleted (edge-free regions in the middle / at either end, re-simplified) x mutation patterns (one mutation above every "
    "node incl. local roots, sites strictly inside the tree; the same with the first site exactly ON the left breakpoint of the tree and its mutation above each of the first three internal nodes in turn; menu patterns) x K (sample isolated over a locus, with a mutation on it) x node metadata schema {none, "
    "permissive JSON, struct}. one evaluation = one util.split_disjoint_nodes call (+ a second application). oracle: the call returns; "
    "per-position parent maps equal the input's after mapping each copy to its origin (via unsplit_node_id when present, else via its "
    "unique time); the first N ids are the input nodes and the leftmost piece keeps the original id; copies keep time/population/"
    "individual/flags plus the split flag; sites identical; genotypes identical; every non-sample node's ancestry is contiguous; a second "
    "application changes nothing. non-trivial = some node was split; distinct = all"
)
ASSUMPTIONS = ["small-scope ARGs with unique internal node times (used to map copies when no schema allows unsplit_node_id)"]


def warmup():
    pass


def cases(tier, seed):
    specs = [(2, 3, 2), (3, 2, 1), (3, 3, 1), (4, 2, 1)] if tier == "quick" else [(2, 3, 2), (3, 2, 1), (3, 3, 1), (4, 2, 1), (3, 3, 2), (4, 3, 1), (4, 2, 2)]
    sp = tsspace.Space(specs, renumber=("reverse",))
    out = []
    for a in sp.args:
        L = a["L"]
        dels = [None] + [[l] for l in range(L)] + ([[0, 2]] if L == 3 else [])
        for d, mutp, schema in itertools.product(dels, ("every_node", "mod3"), ("none", "json", "struct")):
            if tier == "quick" and schema == "struct" and d is None:
                continue
            out.append({"arg": a, "delete": d, "mut": mutp, "schema": schema, "K": None})
        for d, r in itertools.product(dels, range(3)):
            # a site exactly ON each tree's left breakpoint, its mutation above the r-th internal node of that tree (seed C29b)
            out.append({"arg": a, "delete": d, "mut": f"boundary{r}", "schema": "json", "K": None})
        for s_, l_ in itertools.product(range(a["n"]), range(L)):
            out.append({"arg": a, "delete": None, "mut": "every_node", "schema": "json", "K": [s_, l_]})
    return {"cases": out, "states": sp.states, "transitions": sp.transitions, "bound": f"{sp.describe()} (2 numberings) x deleted loci (none, each, {{0,2}}) x 2 mutation patterns x 3 node-metadata schemas + 3 breakpoint-site patterns + every (sample,locus) isolation", "exhaustive": True}


def build(case):
    ts = tsspace.arg_ts(case["arg"])
    if case["K"]:
        ts = tsspace.isolate_sample(ts, case["K"][0], [case["K"][1]])
    if case["delete"]:
        t = ts.dump_tables()
        t.delete_intervals([[l, l + 1] for l in case["delete"]], simplify=True, record_provenance=False)
        t.sort()
        try:
            ts = t.tree_sequence()
        except Exception:
            return None
        if ts.num_edges == 0:
            return None
    t = ts.dump_tables()
    if case["mut"].startswith("boundary"):
        r = int(case["mut"][8:])
        for tree in ts.trees():
            if tree.num_edges == 0:
                continue
            inner = [u for u in tree.nodes() if tree.num_children(u) > 0]
            inner = inner[r % len(inner) :] + inner[: r % len(inner)]
            nodes = inner + [u for u in tree.nodes() if tree.num_children(u) == 0]
            for j, u in enumerate(nodes):
                s = t.sites.add_row(tree.interval.left + tree.span * j / len(nodes), "A")
                t.mutations.add_row(s, u, derived_state="T")
    elif case["mut"] == "every_node":
        k = 0
        for tree in ts.trees():
            if tree.num_edges == 0 and not case["K"]:
                # an edge-free region: still put a site there (a site beyond / between all edges)
                t.sites.add_row(tree.interval.left + 0.5 * tree.span, "A")
                continue
            nodes = list(tree.nodes())
            if case["K"] and tree.num_edges > 0:
                nodes += [u for u in ts.samples() if tree.parent(u) == tskit.NULL and tree.num_children(u) == 0 and u not in nodes]
            for j, u in enumerate(nodes):
                s = t.sites.add_row(tree.interval.left + tree.span * (j + 1) / (len(nodes) + 1), "A")
                t.mutations.add_row(s, u, derived_state="T")
    else:
        pat = [i % 3 for i in range(ts.num_edges)]
        ts = tsspace.add_mutations(ts, pat, above_root=1)
        t = ts.dump_tables()
    t.sort()
    t.build_index()
    t.compute_mutation_parents()
    ts = t.tree_sequence()
    t = ts.dump_tables()
    if case["schema"] == "json":
        xdecor._set_md(t.nodes, xdecor.PERMISSIVE, [{"name": f"n{u}"} for u in range(t.nodes.num_rows)])
    elif case["schema"] == "struct":
        xdecor._set_md(t.nodes, xdecor.STRUCT_WITHOUT, [{"k": u} for u in range(t.nodes.num_rows)])
    if case["schema"] != "none":
        t.populations.add_row()
        t.populations.add_row()
        t.nodes.population = np.array([u % 2 for u in range(t.nodes.num_rows)], dtype=np.int32)
    return t.tree_sequence()


def run(case):
    import tsdate
    from tsdate import util

    ts = build(case)
    if ts is None:
        return {"evals": 0, "viol": [], "tags": {"empty_after_deletion": 1}, "keys": []}
    viol, tags, keys = [], {}, []
    N = ts.num_nodes
    site_off_edges = any(tree.num_edges == 0 and tree.num_sites > 0 for tree in ts.trees())
    mut_on_isolated = any(ts.at(ts.site(m.site).position).parent(m.node) == tskit.NULL and ts.at(ts.site(m.site).position).num_children(m.node) == 0 for m in ts.mutations())
    facts = {"site_in_edge_free_region": bool(site_off_edges), "mutation_on_isolated_node": bool(mut_on_isolated)}

    def bad(kind, msg):
        viol.append({"kind": kind, "msg": msg, "facts": facts, "sub": {}})

    ok, out = call(util.split_disjoint_nodes, ts)
    if not ok:
        bad("split_disjoint_nodes_raises", exc_text(out, 200))
        return {"evals": 1, "viol": viol, "tags": tags, "keys": keys}
    evals = 1
    M = out.num_nodes
    SPLIT = tsdate.NODE_SPLIT_BY_PREPROCESS
    # origin map
    origin = list(range(N)) + [None] * (M - N)
    by_time = {}
    for u in range(N):
        by_time.setdefault(ts.nodes_time[u], []).append(u)
    for v in range(N, M):
        nd = out.node(v)
        md = nd.metadata
        o = None
        if isinstance(md, dict) and "unsplit_node_id" in md:
            o = int(md["unsplit_node_id"])
        else:
            cand = [u for u in by_time.get(nd.time, []) if not ts.node(u).is_sample()]
            if len(cand) == 1:
                o = cand[0]
        origin[v] = o
        if o is None:
            bad("copy_cannot_be_traced_to_an_input_node", f"node {v}")
            return {"evals": evals, "viol": viol, "tags": tags, "keys": keys}
        on = ts.node(o)
        if not (nd.time == on.time and nd.population == on.population and nd.individual == on.individual and nd.flags == (on.flags | SPLIT)):
            bad("copy_attributes_differ", f"node {v} copy of {o}: {nd} vs {on}")
        if case["schema"] == "json" and not (isinstance(md, dict) and md.get("unsplit_node_id") == o and md.get("name") == f"n{o}"):
            bad("copy_metadata_wrong", f"node {v}: {md}")
    for u in range(N):
        a, b = ts.node(u), out.node(u)
        if not (a.time == b.time and a.population == b.population and a.individual == b.individual and (b.flags & ~SPLIT) == a.flags):
            bad("original_node_changed", f"node {u}")
    if out.sequence_length != ts.sequence_length or not ts.tables.sites.equals(out.tables.sites):
        bad("sites_changed", "")
        return {"evals": evals, "viol": viol, "tags": tags, "keys": keys}
    # local trees
    pos = sorted(set(ts.breakpoints()) | set(out.breakpoints()))
    first_seen = {}
    for left, right in zip(pos[:-1], pos[1:]):
        x = (left + right) / 2
        ta, tb = ts.at(x), out.at(x)
        pa = {u: ta.parent(u) for u in ta.nodes()}
        pb = {}
        for v in tb.nodes():
            p = tb.parent(v)
            pb[origin[v]] = origin[p] if p != tskit.NULL else tskit.NULL
            first_seen.setdefault(origin[v], v)
        if pa != pb:
            bad("local_tree_differs", f"position {x}: input {pa} output (mapped) {pb}")
            break
    for o, v in first_seen.items():
        if v != o:
            bad("leftmost_piece_lost_original_id", f"input node {o}: leftmost piece has id {v}")
            break
    # contiguity
    iv = {}
    for e in out.edges():
        for n in (e.parent, e.child):
            iv.setdefault(n, []).append((e.left, e.right))
    for n, lst in iv.items():
        if out.node(n).is_sample():
            continue
        lst.sort()
        reach = lst[0][1]
        for l, r in lst[1:]:
            if l > reach:
                bad("ancestry_not_contiguous_after_split", f"node {n}: {lst}")
                break
            reach = max(reach, r)
    # mutations and genotypes
    if ts.num_mutations != out.num_mutations or not np.array_equal(ts.mutations_site, out.mutations_site):
        bad("mutation_sites_changed", "")
    else:
        for m_in, m_out in zip(ts.mutations(), out.mutations()):
            if origin[m_out.node] != m_in.node:
                bad("mutation_moved_to_another_node", f"mutation {m_in.id}: node {m_in.node} -> {m_out.node} (copy of {origin[m_out.node]})")
                break
            x = ts.site(m_in.site).position
            tb = out.at(x)
            if m_out.node not in set(tb.nodes()) and ts.at(x).num_children(m_in.node) + (ts.at(x).parent(m_in.node) != tskit.NULL) > 0:
                bad("mutation_on_piece_absent_at_its_position", f"mutation {m_in.id} at {x}: node {m_out.node}")
                break
        if ts.num_sites:
            ga, gb = ts.genotype_matrix(), out.genotype_matrix()
            if not np.array_equal(ga, gb):
                bad("genotypes_changed", f"{int(np.sum(ga != gb))} entries differ")
    # idempotence
    evals += 1
    ok2, out2 = call(util.split_disjoint_nodes, out)
    if not ok2:
        bad("second_application_raises", exc_text(out2))
    else:
        t1, t2 = out.dump_tables(), out2.dump_tables()
        t1.provenances.clear()
        t2.provenances.clear()
        if not t1.equals(t2):
            bad("second_application_changes_tables", "")
    if M > N:
        keys.append(f"{case['arg']['id']}|{case['delete']}|{case['mut']}|{case['schema']}|{case['K']}")
        tags["inputs_with_split_nodes"] = 1
    return {"evals": evals, "viol": viol, "tags": tags, "keys": keys}
