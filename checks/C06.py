"""C06 Changing time units rescales all outputs exactly."""

import itertools

import numpy as np
import tskit

from mc import dating, meta, tsspace
from mc.common import classify_exc, exc_text

PROPERTY = "C06"
LEVEL = "model_checking"
RULE = (
    "one evaluation = one pair of runs on the same input: (mu, mbl, N, eps, timepoints) and (mu/c, c*mbl, c*N, c*eps, c*timepoints), "
    "for c on an exact lattice {2^-40,2^-20,2^10,2^30,2^40} (every intermediate scales exactly in binary floating point: agreement "
    "demanded to 1e-9 with no guard) and an inexact lattice {3, 0.37, 1e5/7, 3e-7, 365.25} (1e-6; inputs that are tie-sensitive -- two "
    "non-sample posterior means within 1e-9, or outputs that move >1e-5 under a 2^-30 relative change of mu -- are classified separately). "
    "compared: node times, mutation times, posterior means (x c), variances (x c^2), mutation posteriors. non-trivial = every pair; "
    "distinct = (input, method, options, c)"
)
ASSUMPTIONS = ["samples contemporaneous (time 0), so the input itself needs no rescaling", "continuous quantifier over c covered on the ten listed factors only"]

EXACT = [2.0**-40, 2.0**-20, 2.0**10, 2.0**30, 2.0**40]
INEXACT = [3.0, 0.37, 1e5 / 7, 3e-7, 365.25]
GRID = [0, 0.1, 0.5, 1.0, 2.0, 4.0, 9.0]


def warmup():
    dating.warmup_all()


def cases(tier, seed):
    sp = tsspace.space(tier)
    out = []
    for a in sp.args + tsspace.wide_family():
        E = tsspace.arg_ts(a).num_edges
        pats = tsspace.mutation_patterns(E, "Ms")
        pats = pats[:2] + pats[3:4] if tier == "quick" else pats
        for pn, pat in pats:
            out.append({"arg": a, "mut": pat, "above_root": int(pn == "mod3"), "tier": tier})
    return {
        "cases": out,
        "states": sp.states,
        "transitions": sp.transitions,
        "bound": f"{sp.describe()} + wide family W5..W7 (a node with 5-7 distinct descendant counts) x mutation menu x methods (VG rescaling off/2/2+segsites; IO and max with integer and explicit grids, lin/log) x c in {EXACT + INEXACT}",
        "exhaustive": True,
    }


def plans(tier):
    p = [
        ("variational_gamma", {"rescaling_intervals": 0}, False),
        ("variational_gamma", {"rescaling_intervals": 2}, True),
        ("variational_gamma", {"rescaling_intervals": 2, "match_segregating_sites": True}, True),
        ("inside_outside", {"probability_space": "logarithmic"}, False),
        ("inside_outside", {"probability_space": "linear", "timepoints": GRID}, False),
        ("maximization", {"probability_space": "logarithmic", "timepoints": GRID}, False),
        ("maximization", {"probability_space": "linear"}, False),
    ]
    if tier != "quick":
        p += [("variational_gamma", {"rescaling_intervals": 5, "rescaling_iterations": 2}, True), ("variational_gamma", {"rescaling_intervals": 0, "max_shape": 3.0}, False)]
    return p


def do(method, ts, cfg, c, mu=1.0, N=1.0, mbl=1e-3, eps=1e-6):
    import tsdate

    kw = {k: v for k, v in cfg.items() if k != "timepoints"}
    kw["min_branch_length"] = mbl * c
    pop = None
    if method != "variational_gamma":
        kw["eps"] = eps * c
        if "timepoints" in cfg:
            kw["priors"] = tsdate.build_prior_grid(ts, population_size=N * c, timepoints=np.array(cfg["timepoints"], float) * c)
        else:
            pop = N * c
    with meta.ChangepointTieProbe() as probe:
        ok, out = meta.outputs(method, ts, mu / c, kw, popsize=pop)
    if ok:
        out["cp_tie"] = probe.tie
    return ok, out


def run(case):
    ts, _ = dating.build_input(case)
    viol, tags, keys = [], {}, []
    evals = 0
    nonsample = [u for u in range(ts.num_nodes) if not ts.node(u).is_sample()]
    for method, cfg, rescaling in plans(case["tier"]):
        okb, b = do(method, ts, cfg, 1.0)
        if not okb:
            k = f"base_no_return:{method}:{classify_exc(b)}"
            tags[k] = tags.get(k, 0) + 1
            continue
        tie = None
        for c in EXACT + INEXACT:
            exact = c in EXACT
            evals += 1
            oko, o = do(method, ts, cfg, c)
            sub = {"method": method, "cfg": cfg, "c": c}
            if not oko:
                viol.append({"kind": "scaled_run_fails", "msg": exc_text(o), "facts": {"exact_factor": exact, "exc": type(o).__name__}, "sub": sub})
                continue
            diffs = meta.compare(b, o, 1e-9 if exact else 1e-6, c=c)
            keys.append(f"{case['arg']['id']}|{case['mut']}|{method}|{cfg}|{c}")
            if not diffs:
                continue
            if tie is None:
                tie = meta.has_near_ties(b["mn"], nonsample)
                if not tie:
                    okp, p = do(method, ts, cfg, 1.0, mu=1.0 * (1 + 2.0**-30))
                    tie = (not okp) or bool(meta.compare(b, p, 1e-5))
            viol.append(
                {"kind": "not_scale_equivariant", "msg": f"c={c!r}: {diffs}", "facts": {"exact_factor": exact, "tie_sensitive": bool(tie), "changepoint_boundary_tie": bool(b.get("cp_tie") or o.get("cp_tie")), "rescaling": rescaling, "method": method}, "sub": sub}
            )
            tags["tie_sensitive_disagreements"] = tags.get("tie_sensitive_disagreements", 0) + int(bool(tie))
    return {"evals": evals, "viol": viol, "tags": tags, "keys": keys}
