"""C04 Reported posteriors in metadata equal the fit object's posteriors."""

import itertools

import numpy as np
import tskit

from mc import dating, tsspace
from mc.common import call, classify_exc, mut_md, node_md

PROPERTY = "C04"
LEVEL = "model_checking"
RULE = (
    "one evaluation = one dating call with return_fit=True on (ARG, mutation pattern incl. above-root mutations, H, method, "
    "set_metadata in {None,True}, VG options / probability space); oracle: decoded mn/vr metadata == fit.node_posteriors() / "
    "mutation_posteriors() exactly (NaN==NaN) for variational_gamma; for inside_outside rows of the posterior grid are >=0, "
    "sum to 1 (1e-12) and mn/vr equal the independently recomputed grid mean/variance (1e-12 rel), samples carry (input time, 0) "
    "and NaN rows; maximization writes no mn/vr and changes no schema. non-trivial = run wrote metadata for >=1 non-sample node; "
    "distinct = distinct (input, options)"
)
ASSUMPTIONS = ["small-scope ARGs", "JSON float round trip is exact (repr)", "calls that raise are judged by C35"]


def warmup():
    dating.warmup_all()


def cases(tier, seed):
    sp = tsspace.space(tier)
    out = []
    for a in sp.args:
        E = tsspace.arg_ts(a).num_edges
        pats = tsspace.mutation_patterns(E, "Ms" if tier == "quick" else "Mp")
        for (pn, pat) in pats:
            for H in dating.H_menu(a, tier):
                out.append({"arg": a, "mut": pat, "H": H, "above_root": int(pn in ("mod3", "ones"))})
            if pn == "ones":
                out.append({"arg": a, "mut": pat, "H": {"kind": "cont"}, "above_root": 0, "merge_sites": True})
                # pre-existing metadata: identical annotation on every row / distinct rows / an earlier tsdate run
                for X in ("uniform", "rich", "redated"):
                    out.append({"arg": a, "mut": pat, "H": {"kind": "cont"}, "above_root": 1, "X": X})
            if a["nn"] - a["n"] > 1:
                # node-numbering decorator: non-sample ids in decreasing-age order (as tsinfer numbers them) / rotated
                for rn in (("reverse",) if tier == "quick" else ("reverse", "rotate")):
                    out.append({"arg": a, "mut": pat, "H": {"kind": "cont"}, "above_root": int(pn in ("mod3", "ones")), "renumber": rn})
    return {
        "cases": out,
        "states": sp.states,
        "transitions": sp.transitions,
        "bound": f"{sp.describe()} x mutation menu(+above-root) x H x node numbering (time order, reversed, rotated) x 3 methods x set_metadata x options",
        "exhaustive": True,
    }


def _same(a, b):
    a = np.asarray(a, float)
    b = np.asarray(b, float)
    return bool(np.all((a == b) | (np.isnan(a) & np.isnan(b))))


def run(case):
    ts, _ = dating.build_input(case)
    if case.get("X"):
        from mc import xdecor

        ts = xdecor.decorate(ts, case["X"])
    viol, tags, keys = [], {}, []
    evals = 0
    cont = case["H"]["kind"] == "cont"
    plans = [("variational_gamma", c) for c in dating.vg_configs("full")]
    if cont:
        for sp in ("linear", "logarithmic"):
            plans.append(("inside_outside", {"probability_space": sp}))
            plans.append(("inside_outside", {"probability_space": sp, "outside_standardize": False}))
            plans.append(("maximization", {"probability_space": sp}))
    is_sample = (ts.nodes_flags & tskit.NODE_IS_SAMPLE).astype(bool)
    for (method, cfg), set_md in itertools.product(plans, (None, True)):
        kw = dict(cfg, return_fit=True)
        if set_md is not None:
            kw["set_metadata"] = set_md
        evals += 1
        ok, res = call(dating.method_call, method, ts, 1.0, kw, popsize=1.0)
        sub = {"method": method, "cfg": {k: v for k, v in kw.items()}}
        if not ok:
            k = f"no_return:{method}:{classify_exc(res)}"
            tags[k] = tags.get(k, 0) + 1
            continue
        out, fit = res
        tags["returned:" + method] = tags.get("returned:" + method, 0) + 1

        def bad(kind, msg):
            viol.append({"kind": kind, "msg": msg, "facts": {"method": method}, "sub": sub})

        mn, vr = node_md(out, "mn"), node_md(out, "vr")
        if method == "maximization":
            # "writes no time metadata": whatever the input carried is left exactly as it was
            ti, to = ts.tables, out.tables
            if not (np.array_equal(ti.nodes.metadata, to.nodes.metadata) and np.array_equal(ti.mutations.metadata, to.mutations.metadata)):
                bad("maximization_wrote_time_metadata", "")
            if out.table_metadata_schemas.node != ts.table_metadata_schemas.node or out.table_metadata_schemas.mutation != ts.table_metadata_schemas.mutation:
                bad("maximization_changed_schema", "")
            continue
        if method == "variational_gamma":
            np_ = fit.node_posteriors()
            if not (_same(mn, np_["mean"]) and _same(vr, np_["variance"])):
                bad("node_metadata_differs_from_fit", f"mn {mn.tolist()} vs {np_['mean'].tolist()}; vr {vr.tolist()} vs {np_['variance'].tolist()}")
            mp = fit.mutation_posteriors()
            mmn, mvr = mut_md(out, "mn"), mut_md(out, "vr")
            if not (_same(mmn, mp["mean"]) and _same(mvr, mp["variance"])):
                # known finding F13 (see C02): rows of a site with mutations on several nodes come back re-sorted by
                # their new times, so output row k is no longer input mutation k.  Accept only that exact pattern.
                explained = ts.num_mutations == out.num_mutations and np.array_equal(ts.mutations_site, out.mutations_site)
                if explained:
                    for site in np.unique(ts.mutations_site):
                        rows = np.flatnonzero(ts.mutations_site == site)
                        a = sorted(zip(np.nan_to_num(mp["mean"][rows], nan=-1.0).tolist(), np.nan_to_num(mp["variance"][rows], nan=-1.0).tolist(), ts.mutations_node[rows].tolist()))
                        b = sorted(zip(np.nan_to_num(mmn[rows], nan=-1.0).tolist(), np.nan_to_num(mvr[rows], nan=-1.0).tolist(), out.mutations_node[rows].tolist()))
                        if a != b or (len(set(ts.mutations_node[rows].tolist())) < 2 and not _same(mmn[rows], mp["mean"][rows])):
                            explained = False
                if explained:
                    viol.append({"kind": "mutation_metadata_rows_permuted_within_site", "msg": f"output nodes {out.mutations_node.tolist()} input nodes {ts.mutations_node.tolist()}",
                                 "facts": {"method": method, "site_has_mutations_on_distinct_nodes": True, "same_multiset_per_site": True}, "sub": sub})
                else:
                    bad("mutation_metadata_differs_from_fit", f"mn {mmn.tolist()} vs {mp['mean'].tolist()}")
            if np.any(np.isnan(mp["mean"])):
                tags["vg_nan_mutation_posteriors"] = tags.get("vg_nan_mutation_posteriors", 0) + 1
        else:
            grid = fit.posterior_grid
            tp = np.asarray(grid.timepoints, float)
            npa = fit.node_posteriors()
            names = npa.dtype.names
            for u in range(ts.num_nodes):
                row = np.array([npa[u][nm] for nm in names], float)
                if is_sample[u]:
                    if not np.all(np.isnan(row)):
                        bad("sample_row_not_nan", f"node {u}")
                    if not (mn[u] == ts.nodes_time[u] and vr[u] == 0):
                        bad("sample_metadata_not_exact", f"node {u}: mn {mn[u]!r} vr {vr[u]!r}")
                    continue
                if not (np.all(row >= 0) and abs(row.sum() - 1) <= 1e-12):
                    bad("posterior_row_not_a_distribution", f"node {u}: sum {row.sum()!r} min {row.min()!r}")
                    continue
                m = float(np.dot(row, tp))
                v = float(np.dot(row, (tp - m) ** 2))
                if not (abs(mn[u] - m) <= 1e-12 * max(1, abs(m)) and abs(vr[u] - v) <= 1e-12 * max(1, abs(v))):
                    bad("io_metadata_not_grid_moments", f"node {u}: mn {mn[u]!r} vs {m!r}; vr {vr[u]!r} vs {v!r}")
            if np.any(~np.isnan(mut_md(out, "mn"))):
                tags["io_wrote_mutation_metadata"] = tags.get("io_wrote_mutation_metadata", 0) + 1
        if np.any(np.isnan(mn)):
            bad("no_time_metadata_written", "some node rows lack mn although the table had neither schema nor metadata")
        elif np.any(~is_sample):
            keys.append(f"{case['arg']['id']}|{case['mut']}|{case['H']}|{case.get('renumber')}|{case.get('merge_sites')}|{case.get('X')}|{method}|{kw}")
    return {"evals": evals, "viol": viol, "tags": tags, "keys": keys}
