"""C31 Site-time estimates follow their documented definition."""

import itertools
import json

import numpy as np
import tskit

from mc import dating, tsspace
from mc.common import call, classify_exc, exc_text

PROPERTY = "C31"
LEVEL = "model_checking"
RULE = (
    "inputs = bounded ARGs x site layouts {one mutation per site, all mutations of a locus merged into one site (recurrent, nested and "
    "parallel mutations), + above-root mutations, + monomorphic sites} x node ages from (A) real dating by variational_gamma / "
    "inside_outside (mn metadata) and (B) the COMPLETE product of synthetic mn vectors {0.5,1,2,3}^k on the non-sample nodes (k<=4; "
    "includes every inversion between a node and its ancestors) x node_selection (4) x min_time {0, 1, 1e-6} x unconstrained {T,F} (synthetic vectors: min_time 0, unconstrained only). "
    "oracle = re-implementation of the statement: per site the largest over its mutations of child / parent / arithmetic / geometric age "
    "(child age above a root), raised to min_time, NaN without mutations; unconstrained=True reads non-sample ages from mn. "
    "add_sampledata_times: site time == max(estimate, oldest historical sample carrying the derived allele) on tsinfer SampleData built "
    "from the same genotypes with every pattern of one or two historical samples. one evaluation = one call; non-trivial = site with >=2 "
    "mutations or an mn inversion; distinct = all"
)
ASSUMPTIONS = ["small-scope ARGs", "tsinfer 0.5 SampleData API"]
SELS = ["child", "parent", "arithmetic", "geometric"]


def warmup():
    dating.warmup_all()


def cases(tier, seed):
    sp = tsspace.space(tier)
    out = []
    for a in sp.args:
        for layout in ("single", "merged"):
            out.append({"arg": a, "layout": layout})
    return {"cases": out, "states": sp.states, "transitions": sp.transitions, "bound": f"{sp.describe()} x 2 site layouts x (2 dating methods + all synthetic mn vectors) x 4 node_selection x 3 min_time x unconstrained", "exhaustive": True}


def reference(ts, ages, sel, min_time):
    out = np.full(ts.num_sites, np.nan)
    for tree in ts.trees():
        for site in tree.sites():
            best = None
            for m in site.mutations:
                p = tree.parent(m.node)
                c_age = ages[m.node]
                if sel == "child" or p == tskit.NULL:
                    v = c_age
                elif sel == "parent":
                    v = ages[p]
                elif sel == "arithmetic":
                    v = (c_age + ages[p]) / 2
                else:
                    v = float(np.sqrt(c_age * ages[p]))
                best = v if best is None or v > best else best
            if best is not None:
                out[site.id] = max(best, min_time)
    return out


def with_mn(ts, mn):
    t = ts.dump_tables()
    t.nodes.metadata_schema = tskit.MetadataSchema.permissive_json()
    t.nodes.packset_metadata([json.dumps({"mn": float(mn[u]), "vr": 1.0}).encode() if not ts.node(u).is_sample() else b"{}" for u in range(ts.num_nodes)])
    return t.tree_sequence()


def run(case):
    import tsdate
    from tsdate import util

    a = case["arg"]
    base = tsspace.arg_ts(a)
    ts = tsspace.add_mutations(base, [1 + (i % 2) for i in range(base.num_edges)], above_root=1)
    if case["layout"] == "merged":
        ts = tsspace.merge_sites_per_locus(ts)
    # a monomorphic site
    t = ts.dump_tables()
    t.sites.add_row(0.0001, "G")
    t.sort()
    t.build_index()
    t.compute_mutation_parents()
    ts = t.tree_sequence()
    viol, tags, keys = [], {}, []
    evals = 0
    cid = f"{a['id']}|{case['layout']}"
    multi = any(len(s.mutations) > 1 for s in ts.sites())

    def compare(tsx, ages_unc, label, inversion=False, light=False):
        nonlocal evals
        for sel, mt, unc in itertools.product(SELS, (0,) if light else (0, 1, 1e-6), (True,) if light else (True, False)):
            evals += 1
            ages = ages_unc if unc else tsx.nodes_time
            ok, got = call(util.sites_time_from_ts, tsx, unconstrained=unc, node_selection=sel, min_time=mt)
            sub = {"ages": label, "node_selection": sel, "min_time": mt, "unconstrained": unc}
            if ages is None:
                if ok:
                    viol.append({"kind": "unconstrained_without_metadata_accepted", "msg": "", "facts": {}, "sub": sub})
                elif classify_exc(got) != "clean":
                    viol.append({"kind": "site_times_raises", "msg": exc_text(got), "facts": {}, "sub": sub})
                continue
            if not ok:
                viol.append({"kind": "site_times_raises", "msg": exc_text(got), "facts": {}, "sub": sub})
                continue
            want = reference(tsx, ages, sel, mt)
            same = np.all((got == want) | (np.isnan(got) & np.isnan(want)) | (np.abs(got - want) <= 1e-12 * np.abs(want)))
            if not same:
                viol.append({"kind": "site_time_differs_from_definition", "msg": f"got {got.tolist()} want {want.tolist()}", "facts": {}, "sub": sub})
            if multi or inversion:
                keys.append(f"{cid}|{label}|{sel}|{mt}|{unc}")

    # (A) really dated inputs
    for method, kw in (("variational_gamma", {"rescaling_intervals": 0}), ("inside_outside", {"population_size": 1.0}), ("maximization", {"population_size": 1.0})):
        ok, d = call(tsdate.date, ts, mutation_rate=1.0, method=method, **kw)
        if not ok:
            tags[f"dating_failed:{classify_exc(d)}"] = tags.get(f"dating_failed:{classify_exc(d)}", 0) + 1
            continue
        if method == "maximization":
            compare(d, None, method)
        else:
            mn = d.nodes_time.copy()
            for nd in d.nodes():
                if not nd.is_sample():
                    mn[nd.id] = nd.metadata["mn"]
            compare(d, mn, method)
    # (B) synthetic mn vectors: complete product
    inner = [u for u in range(ts.num_nodes) if not ts.node(u).is_sample()]
    if len(inner) <= 4:
        for vals in itertools.product((0.5, 1.0, 2.0, 3.0), repeat=len(inner)):
            mn = ts.nodes_time.copy()
            mn[inner] = vals
            tags["mc_states"] = tags.get("mc_states", 0) + 1
            tags["mc_transitions"] = tags.get("mc_transitions", 0) + 1
            inv = any(mn[e.parent] < mn[e.child] for e in ts.edges())
            compare(with_mn(ts, mn), mn, f"mn{vals}", inversion=inv, light=True)
    # add_sampledata_times
    try:
        import tsinfer
    except Exception:  # noqa: BLE001
        tsinfer = None
    if tsinfer is not None and ts.num_sites > 0:
        n = ts.num_samples
        est = util.sites_time_from_ts(ts, unconstrained=False, min_time=0)
        patterns = [()] + [(i,) for i in range(n)] + list(itertools.combinations(range(n), 2))
        for hist in patterns:
            times = [0.0] * n
            for j, i in enumerate(hist):
                times[i] = 1.75 + j
            sd = tsinfer.SampleData(sequence_length=ts.sequence_length)
            for i in range(n):
                sd.add_individual(ploidy=1, time=times[i])
            G = ts.genotype_matrix()
            for s in ts.sites():
                alleles = ["A", "T"]
                sd.add_site(s.position, np.minimum(G[s.id], 1).astype(np.int8), alleles=alleles)
            sd.finalise()
            evals += 1
            ok, cp = call(util.add_sampledata_times, sd, est)
            sub = {"historical_samples": list(hist)}
            if not ok:
                viol.append({"kind": "add_sampledata_times_raises", "msg": exc_text(cp), "facts": {}, "sub": sub})
                continue
            bound = np.array([max([times[i] for i in range(n) if G[s.id][i] > 0] + [0.0]) for s in ts.sites()])
            want = np.maximum(est, bound)  # a site without mutations stays NaN
            got = np.array(cp.sites_time[:])
            nanin = np.isnan(est)
            ok_eq = np.all((got == want) | (np.isnan(got) & np.isnan(want)))
            if not ok_eq:
                viol.append({"kind": "sampledata_site_time_wrong", "msg": f"estimate {est.tolist()} bound {bound.tolist()} got {got.tolist()} want {want.tolist()}", "facts": {"some_site_without_mutations": bool(np.any(nanin))}, "sub": sub})
            if hist:
                keys.append(f"{cid}|sd{hist}")
    return {"evals": evals, "viol": viol, "tags": tags, "keys": keys}
