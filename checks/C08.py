"""C08 Dates depend only on topology, sample times and mutation placement."""

import itertools

import numpy as np
import tskit

from mc import dating, meta, tsspace, xdecor
from mc.common import classify_exc, exc_text

PROPERTY = "C08"
LEVEL = "model_checking"
RULE = (
    "one evaluation = one pair (plain input, perturbed input) dated with the same method/options; perturbations = each of "
    "{rich metadata+schemas+populations+provenance+time_units+reference, struct-codec metadata, raw-bytes metadata, edge metadata, "
    "ancestral/derived state strings (empty, multi-char), monomorphic sites in every gap, known input mutation times, diploid "
    "individuals with location/parents/metadata (phased mode)} alone and all compatible ones together. oracle: node times, "
    "mutation times, node posterior mean/variance, mutation posteriors and mutation nodes BIT-IDENTICAL to the plain run (none of "
    "the perturbed data is on an arithmetic path); a perturbed run that fails where the plain one returns is a violation. "
    "non-trivial = every pair (the perturbed input differs from the plain one in at least one table); distinct = (input, perturbation, method, options)"
)
ASSUMPTIONS = ["small-scope ARGs", "migration rows are outside the statement and not perturbed here"]

VARIANTS = ["rich", "struct", "rawbytes", "edge_md", "states", "mono_sites", "mono_one_left", "mono_one_right", "mono_balance_left", "mono_balance_right",
            "known_mut_times", "individuals", "all"]


def warmup():
    dating.warmup_all()


def cases(tier, seed):
    sp = tsspace.space(tier, renumber=("reverse",) if tier != "quick" else ())
    out = []
    for a in sp.args:
        E = tsspace.arg_ts(a).num_edges
        pats = tsspace.mutation_patterns(E, "Ms")
        pats = pats[:2] + pats[3:4] if tier == "quick" else pats
        for pn, pat in pats:
            out.append({"arg": a, "mut": pat, "above_root": int(pn == "mod3"), "recurrent": pn == "mod3b"})
            if pn == "mod3" and a["L"] > 1:
                out.append({"arg": a, "mut": pat, "above_root": 0, "recurrent": False, "merge_sites": True})
    return {
        "cases": out,
        "states": sp.states,
        "transitions": sp.transitions,
        "bound": f"{sp.describe()} x mutation menu x perturbations {VARIANTS} x 3 methods (VG: rescaling off/2/default; IO, max: default)",
        "exhaustive": True,
    }


def add_mono(ts, k, side):
    """add exactly k monomorphic sites, in the k left-most (right-most) gaps between existing sites (and the flank)"""
    t = ts.dump_tables()
    pos = sorted(set(float(x) for x in t.sites.position))
    cand = [(a + b) / 2 for a, b in zip([0.0] + pos, pos + [float(ts.sequence_length)]) if b - a > 1e-9]
    cand = [c for c in cand if c not in pos]
    if side == "right":
        cand = cand[::-1]
    for c in cand[:k]:
        t.sites.add_row(c, "G")
    t.sort()
    t.build_index()
    t.compute_mutation_parents()
    return t.tree_sequence()


def perturb(ts, v):
    if v.startswith("mono_one"):
        return add_mono(ts, 1, v.split("_")[-1])
    if v.startswith("mono_balance"):
        # as many monomorphic sites as there are 'surplus' mutations: num_sites == num_mutations afterwards
        k = ts.num_mutations - ts.num_sites
        return add_mono(ts, k, v.split("_")[-1]) if k > 0 else None
    if v == "known_mut_times":
        t = ts.dump_tables()
        t.compute_mutation_times()
        return t.tree_sequence()
    if v == "individuals":
        return xdecor.decorate(ts, "plain", diploid="rich")
    if v == "all":
        for w in ("rich", "states", "edge_md", "mono_sites"):
            ts = xdecor.decorate(ts, w)
        ts = xdecor.decorate(ts, "plain", diploid="rich")
        t = ts.dump_tables()
        t.compute_mutation_times()
        return t.tree_sequence()
    return xdecor.decorate(ts, v)


def run(case):
    ts, _ = dating.build_input(case)
    viol, tags, keys = [], {}, []
    evals = 0
    plans = [("variational_gamma", {"rescaling_intervals": 0}), ("variational_gamma", {"rescaling_intervals": 2}), ("variational_gamma", {}),
             ("inside_outside", {}), ("maximization", {})]
    base = {}
    for i, (method, cfg) in enumerate(plans):
        base[i] = meta.outputs(method, ts, 1.0, cfg, popsize=1.0)
    for v in VARIANTS:
        tsv = perturb(ts, v)
        if tsv is None:
            continue
        if tsv.num_mutations != ts.num_mutations or not np.array_equal(tsv.mutations_node, ts.mutations_node):
            if v in ("known_mut_times", "all") and case.get("merge_sites"):
                # making mutation times known re-sorts the rows of multi-node sites: not the same input any more
                tags["variant_skipped_rows_resorted"] = tags.get("variant_skipped_rows_resorted", 0) + 1
                continue
            viol.append({"kind": "harness_perturbation_changed_mutations", "msg": v, "facts": {}, "sub": {"variant": v}})
            continue
        for i, (method, cfg) in enumerate(plans):
            okb, b = base[i]
            evals += 1
            oko, o = meta.outputs(method, tsv, 1.0, cfg, popsize=1.0)
            sub = {"variant": v, "method": method, "cfg": cfg}
            if not okb:
                if oko:
                    viol.append({"kind": "plain_fails_but_perturbed_returns", "msg": exc_text(b), "facts": {}, "sub": sub})
                tags[f"plain_no_return:{method}:{classify_exc(b)}"] = tags.get(f"plain_no_return:{method}:{classify_exc(b)}", 0) + 1
                continue
            if not oko:
                viol.append({"kind": "perturbed_input_fails", "msg": exc_text(o), "facts": {"exc": type(o).__name__}, "sub": sub})
                continue
            diffs = meta.compare(b, o, 0.0)
            if not np.array_equal(b["mnode"], o["mnode"]):
                diffs.append(("mnode", 1))
            if diffs:
                viol.append({"kind": "output_depends_on_irrelevant_data", "msg": f"{diffs}", "facts": {}, "sub": sub})
            keys.append(f"{case['arg']['id']}|{case['mut']}|{v}|{method}|{cfg}")
    return {"evals": evals, "viol": viol, "tags": tags, "keys": keys}
