"""C21 EP message bookkeeping is consistent after every iteration (and after every single edge update)."""

import itertools

import numpy as np
import tskit

from mc import dating, tsspace
from mc.common import call, classify_exc

PROPERTY = "C21"
LEVEL = "model_checking"
RULE = (
    "two drivers on every (ARG, mutation pattern, sample decorator, max_shape, regularise, singletons_phased): "
    "(a) a harness subclass of variational.ExpectationPropagation observes every iterate() of a real variational_gamma call "
    "(8 iterations): node_posterior == prior + constraint + sum of edge/block messages addressed to the node (abs err <= 1e-9 * "
    "sum|terms|), scale == 1, a second _rescale_factors is the identity, fixed nodes' moments == their input times; "
    "(b) a single-step driver replays the same schedule one edge/block update at a time through the real propagate_likelihood "
    "and checks after EVERY step that posterior[u] == scale[u] * sum(messages to u) -- i.e. every prefix of the update schedule "
    "is a checked state -- and that stepping reproduces iterate() bit for bit (conformance of the driver). "
    "one evaluation = one observed state (iteration or step); non-trivial = state in which some scale != 1 (damping active) "
    "or a block message is non-zero; distinct = (input, options, state index)"
)
ASSUMPTIONS = ["small-scope ARGs", "tolerance is relative to the sum of absolute message magnitudes (messages may cancel)"]

SHAPES = [1.5, 3.0, 1000.0]


def warmup():
    dating.warmup_all()


def cases(tier, seed):
    sp = tsspace.space(tier)
    out = []
    for a in sp.args:
        E = tsspace.arg_ts(a).num_edges
        pats = tsspace.mutation_patterns(E, "Ms" if tier == "quick" else "Mp")
        if tier == "quick":
            pats = pats[1:2] + pats[3:4]
        for (pn, pat) in pats:
            for H in dating.H_menu(a, "quick"):
                out.append({"arg": a, "mut": pat, "H": H, "diploid": False, "tier": tier})
            if a["n"] in (2, 4):
                out.append({"arg": a, "mut": pat, "H": {"kind": "cont"}, "diploid": True, "tier": tier})
    return {
        "cases": out,
        "states": sp.states,
        "transitions": sp.transitions,
        "bound": f"{sp.describe()} x mutation menu x H menu x diploid x max_shape {SHAPES if tier != 'quick' else SHAPES[::2]} x regularise x singletons_phased; 8 EP iterations (observer), 3 iterations single-stepped",
        "exhaustive": True,
    }


def assemble(fit, with_scale):
    """independent re-assembly of the messages addressed to each node (python loops, no shared code)"""
    f = fit.factors
    N = fit.node_posterior.shape[0]
    tot = np.zeros((N, 2))
    mag = np.zeros((N, 2))
    edge, block, node = np.array(f.edge), np.array(f.block), np.array(f.node)
    for i in range(edge.shape[0]):
        p, c = int(fit.edge_parents[i]), int(fit.edge_children[i])
        tot[p] += edge[i, 0]
        mag[p] += np.abs(edge[i, 0])
        tot[c] += edge[i, 1]
        mag[c] += np.abs(edge[i, 1])
    for i in range(block.shape[0]):
        j, k = int(fit.block_nodes[0][i]), int(fit.block_nodes[1][i])
        tot[j] += block[i, 0]
        mag[j] += np.abs(block[i, 0])
        tot[k] += block[i, 1]
        mag[k] += np.abs(block[i, 1])
    for u in range(N):
        tot[u] += node[u, 0] + node[u, 1]
        mag[u] += np.abs(node[u, 0]) + np.abs(node[u, 1])
    if with_scale:
        s = np.array(f.scale)[:, None]
        tot, mag = tot * s, mag * s
    return tot, mag


def state_ok(fit, with_scale):
    tot, mag = assemble(fit, with_scale)
    post = np.array(fit.node_posterior)
    err = np.abs(post - tot)
    lim = 1e-9 * np.maximum(mag, np.abs(post)) + 1e-300
    if np.all(np.isfinite(post)) and np.all(err <= lim):
        return None
    u = int(np.argmax((err - lim).max(axis=1)))
    return f"node {u}: posterior {post[u].tolist()} != sum of messages {tot[u].tolist()} (scale {float(fit.factors.scale[u])!r})"


def run(case):
    import tsdate
    from tsdate import variational as V

    ts, s = dating.build_input(case)
    viol, tags, keys = [], {}, []
    evals = 0
    base = V.ExpectationPropagation
    cid = f"{case['arg']['id']}|{case['mut']}|{case['H']}|{case['diploid']}"

    def bad(kind, msg, sub):
        if len(viol) < 6:
            viol.append({"kind": kind, "msg": msg, "facts": {}, "sub": sub})

    phs = [True, False] if case["diploid"] else [True]
    for max_shape, reg, ph in itertools.product(SHAPES if case.get('tier') != 'quick' else SHAPES[::2], (True, False), phs):
        sub = {"max_shape": max_shape, "regularise_roots": reg, "singletons_phased": ph}
        log = []

        class Observer(base):
            def iterate(self, **kw):
                super().iterate(**kw)
                log.append(
                    {
                        "msg": state_ok(self, False),
                        "scale1": bool(np.all(np.array(self.factors.scale) == 1.0)),
                        "post": np.array(self.node_posterior).copy(),
                        "block_nonzero": bool(np.any(np.array(self.factors.block) != 0)),
                    }
                )
                before = (np.array(self.factors.edge).copy(), np.array(self.factors.block).copy(), np.array(self.factors.node).copy())
                V._rescale_factors(self.factors)
                after = (np.array(self.factors.edge), np.array(self.factors.block), np.array(self.factors.node))
                log[-1]["rescale_identity"] = all(np.array_equal(a, b) for a, b in zip(before, after))
                mn, va = self.node_moments()
                fx = self.node_constraints[:, 0] == self.node_constraints[:, 1]
                log[-1]["fixed_ok"] = bool(np.array_equal(mn[fx], self.node_constraints[fx, 0]) and np.all(va[fx] == 0))

        V.ExpectationPropagation = Observer
        try:
            ok, res = call(
                tsdate.variational_gamma, ts, mutation_rate=1.0, max_iterations=8, max_shape=max_shape, regularise_roots=reg,
                singletons_phased=ph, rescaling_intervals=0, return_fit=True,
            )
        finally:
            V.ExpectationPropagation = base
        if not ok:
            tags[f"no_return:{classify_exc(res)}"] = tags.get(f"no_return:{classify_exc(res)}", 0) + 1
            continue
        tags["observed_calls"] = tags.get("observed_calls", 0) + 1
        if len(log) != 8:
            bad("iteration_count", f"{len(log)} iterate() calls observed for max_iterations=8", sub)
        for it, st in enumerate(log):
            evals += 1
            if st["msg"]:
                bad("posterior_not_sum_of_messages", f"after iteration {it + 1}: {st['msg']}", sub)
            if not st["scale1"]:
                bad("scale_not_absorbed", f"after iteration {it + 1} scale != 1", sub)
            if not st["rescale_identity"]:
                bad("rescale_factors_not_identity", f"after iteration {it + 1}", sub)
            if not st["fixed_ok"]:
                bad("fixed_node_moments_changed", f"after iteration {it + 1}", sub)
            if st["block_nonzero"]:
                keys.append(f"{cid}|{sub}|it{it}")
        # sample nodes keep their times in the output
        out_ts, fit = res
        smp = list(ts.samples())
        mn, _ = fit.node_moments()
        if not np.array_equal(mn[smp], ts.nodes_time[smp]):
            bad("sample_moment_changed", f"{mn[smp].tolist()} vs {ts.nodes_time[smp].tolist()}", sub)

        # (b) single-step driver on a fresh object
        try:
            ep = base(ts, mutation_rate=1.0, singletons_phased=ph)
        except Exception:  # noqa: BLE001
            continue
        for it in range(2 if case.get("tier") == "quick" else 3):
            plan = [("block", int(i)) for i in ep.block_order] + [("edge", int(i)) for i in ep.edge_order]
            for kind, i in plan:
                one = np.array([i], dtype=np.int32)
                if kind == "block":
                    base.propagate_likelihood(one, ep.block_nodes[0], ep.block_nodes[1], ep.block_likelihoods, ep.node_constraints,
                                              ep.node_posterior, ep.factors, ep.block_logconst, max_shape, 0.1, True)
                else:
                    base.propagate_likelihood(one, ep.edge_parents, ep.edge_children, ep.edge_likelihoods, ep.node_constraints,
                                              ep.node_posterior, ep.factors, ep.edge_logconst, max_shape, 0.1, False)
                evals += 1
                tags["mc_states"] = tags.get("mc_states", 0) + 1
                tags["mc_transitions"] = tags.get("mc_transitions", 0) + 1
                msg = state_ok(ep, True)
                if msg:
                    bad("step_posterior_not_scaled_sum", f"iteration {it + 1}, after {kind} {i}: {msg}", sub)
                if np.any(np.array(ep.factors.scale) != 1.0):
                    keys.append(f"{cid}|{sub}|it{it}|{kind}{i}")
            if reg:
                base.propagate_prior(ep.unconstrained_roots, ep.node_posterior, ep.factors, max_shape, 10, 1e-8)
                evals += 1
                msg = state_ok(ep, True)
                if msg:
                    bad("step_posterior_not_scaled_sum", f"iteration {it + 1}, after prior update: {msg}", sub)
            V._rescale_factors(ep.factors)
            if it < len(log) and not np.array_equal(np.array(ep.node_posterior), log[it]["post"]):
                # conformance of the single-step driver with iterate(): informational (a different but legitimate update
                # schedule inside iterate() would not break the property; the invariant is still checked on every real step)
                tags["stepper_differs_from_iterate"] = tags.get("stepper_differs_from_iterate", 0) + 1
    keys = sorted(set(keys))
    return {"evals": evals, "viol": viol, "tags": tags, "keys": keys}
