"""C13 Maximization picks ordered grid timepoints by the documented rule."""

import itertools
import math

import numpy as np

from mc import dating, tsspace
from mc.common import call, classify_exc, edge_mut_counts

PROPERTY = "C13"
LEVEL = "model_checking"
RULE = (
    "one evaluation = one maximization call with return_fit=True on (ARG, mutation vector, prior grid {6 integer, explicit}, "
    "prior distribution, probability space, eps); oracle = re-implementation of the documented rule from fit.inside: every "
    "non-sample estimate is a grid point, index(child)<=index(parent) on every edge, never-a-child nodes maximise inside, other "
    "nodes maximise inside[k]*prod_e Poisson(m_e;(t_parent-t_k+eps)*mu*span_e) over k<=youngest parent index (within 1e-9, tie "
    "tolerant); output node times are those grid points unless raised by the branch-length constraint. non-trivial = some node "
    "has >=2 parent edges or its chosen index is strictly below its youngest parent's; distinct = (input, options)"
)
ASSUMPTIONS = ["small-scope ARGs", "reference uses math.lgamma Poisson log-pmf", "fit.inside is taken as given (C10 checks it on single trees)"]
MU = 0.3


def warmup():
    dating.warmup_all()


def cases(tier, seed):
    sp = tsspace.space(tier, renumber=("reverse", "rotate"))
    out = []
    for a in sp.args:
        E = tsspace.arg_ts(a).num_edges
        pats = tsspace.mutation_patterns(E, "Ms" if tier == "quick" else "Mp") + [("zero", [0] * E), ("twos", [2] * E)]
        for pn, pat in pats:
            out.append({"arg": a, "mut": pat})
        # nodes with two different parents are where the rule is subtle (youngest parent, product over parents):
        # complete {1,6}^E mutation product on the small multi-parent ARGs
        ts = tsspace.arg_ts(a)
        multi = any(len({e.parent for e in ts.edges() if e.child == u}) > 1 for u in range(a["n"], ts.num_nodes))
        if multi and E <= (8 if tier == "quick" else 10) and "renumber" not in a:
            for vec in itertools.product((1, 6), repeat=E):
                out.append({"arg": a, "mut": list(vec)})
    return {
        "cases": out,
        "states": sp.states,
        "transitions": sp.transitions,
        "bound": f"{sp.describe()} x mutation menu x 2 grids x 2 prior distributions x 2 spaces x eps {{1e-6,0.1}}",
        "exhaustive": True,
    }


def _logpmf(m, lam):
    with np.errstate(divide="ignore", invalid="ignore"):
        return np.where(lam > 0, m * np.log(lam) - lam - math.lgamma(m + 1), np.where(m == 0, 0.0, -np.inf))


def run(case):
    import tsdate

    ts = tsspace.add_mutations(tsspace.arg_ts(case["arg"]), case["mut"])
    mut = edge_mut_counts(ts)
    viol, tags, keys = [], {}, []
    evals = 0
    nonsample = [u for u in range(ts.num_nodes) if not ts.node(u).is_sample()]
    children = set(int(c) for c in ts.edges_child)
    pedges = {u: [e for e in ts.edges() if e.child == u] for u in nonsample}
    for tp, dist, space, eps in itertools.product((6, [0, 0.5, 1, 2, 4, 8.0]), ("lognorm", "gamma"), ("linear", "logarithmic"), (1e-6, 0.1)):
        tpa = tp if isinstance(tp, int) else np.array(tp)
        evals += 1
        pri = tsdate.build_prior_grid(ts, population_size=1.0, timepoints=tpa, prior_distribution=dist)
        ok, res = call(tsdate.maximization, ts, mutation_rate=MU, priors=pri, eps=eps, probability_space=space, return_fit=True)
        sub = {"timepoints": tp, "dist": dist, "space": space, "eps": eps}
        if not ok:
            k = f"no_return:{classify_exc(res)}"
            tags[k] = tags.get(k, 0) + 1
            continue
        out, fit = res
        tags["returned"] = tags.get("returned", 0) + 1

        def bad(kind, msg):
            viol.append({"kind": kind, "msg": msg, "facts": {}, "sub": sub})

        grid = np.asarray(fit.lik.timepoints, float)
        pm = np.asarray(fit.posterior_mean, float)
        idx = {}
        for u in nonsample:
            i = int(np.argmin(np.abs(grid - pm[u])))
            if grid[i] != pm[u]:
                bad("estimate_not_a_grid_point", f"node {u}: {pm[u]!r}")
            idx[u] = i
        for e in ts.edges():
            if e.child in idx and idx[e.child] > idx[e.parent]:
                bad("child_later_than_parent", f"edge {e.parent}->{e.child}: idx {idx[e.parent]} < {idx[e.child]}")
        nontriv = False
        for u in nonsample:
            ins = np.array(fit.inside[u], float)
            with np.errstate(divide="ignore"):
                lins = ins if space == "logarithmic" else np.log(ins)
            if u not in children:
                obj = lins
                y = len(grid) - 1
            else:
                y = min(idx[e.parent] for e in pedges[u])
                obj = lins[: y + 1].copy()
                for e in pedges[u]:
                    obj = obj + _logpmf(mut[e.id], (grid[idx[e.parent]] - grid[: y + 1] + eps) * MU * e.span)
                if idx[u] < y or len(pedges[u]) > 1:
                    nontriv = True
            if idx[u] > y:
                continue  # already reported as child_later_than_parent
            best = np.nanmax(obj) if np.any(~np.isnan(obj)) else -np.inf
            if not np.isfinite(best):
                tags["degenerate_objective"] = tags.get("degenerate_objective", 0) + 1
                continue
            if not (obj[idx[u]] >= best - 1e-9 * max(1.0, abs(best))):
                bad(
                    "not_the_argmax",
                    f"node {u}: chose index {idx[u]} (log objective {obj[idx[u]]!r}) but index {int(np.nanargmax(obj))} has {best!r}",
                )
        # returned node times: grid point unless raised by the constraint
        t = out.nodes_time
        for u in nonsample:
            if t[u] != pm[u]:
                lo = max((t[c] + 1e-8 for c in ts.edges_child[ts.edges_parent == u]), default=-1)
                if not (t[u] > pm[u] and t[u] == lo):
                    bad("output_time_not_grid_or_forced", f"node {u}: {t[u]!r} vs estimate {pm[u]!r}")
                else:
                    tags["raised_by_constraint"] = tags.get("raised_by_constraint", 0) + 1
        if nontriv:
            keys.append(f"{case['arg']['id']}|{case['mut']}|{sub}")
    return {"evals": evals, "viol": viol, "tags": tags, "keys": keys}
