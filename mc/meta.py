"""Helpers for metamorphic checks: run one dating call and extract every numeric output."""

import numpy as np
import tskit

from . import dating
from .common import call


def outputs(method, ts, mu, cfg, popsize=None):
    """returns (True, dict) or (False, exception).  dict: t (node times), mt (mutation times), mn/vr (node posterior
    mean/var from the fit object; nan where undefined), mmn/mvr (mutation posteriors, VG only), mnode, grid (IO rows)"""
    kw = dict(cfg, return_fit=True)
    ok, res = call(dating.method_call, method, ts, mu, kw, popsize=popsize)
    if not ok:
        return False, res
    out, fit = res
    d = {"t": out.nodes_time.copy(), "mt": out.mutations_time.copy(), "mnode": out.mutations_node.copy(), "ts": out}
    N = ts.num_nodes
    if method == "variational_gamma":
        p = fit.node_posteriors()
        d["mn"], d["vr"] = np.array(p["mean"]), np.array(p["variance"])
        q = fit.mutation_posteriors()
        d["mmn"], d["mvr"] = np.array(q["mean"]), np.array(q["variance"])
    elif method == "inside_outside":
        grid = fit.posterior_grid
        tp = np.asarray(grid.timepoints, float)
        mn = np.full(N, np.nan)
        vr = np.full(N, np.nan)
        rows = {}
        for u in grid.nonfixed_nodes:
            r = np.asarray(grid[u], float)
            rows[int(u)] = r
            mn[u] = float(np.dot(r, tp) / r.sum())
            vr[u] = float(np.dot(r / r.sum(), (tp - mn[u]) ** 2))
        d["mn"], d["vr"], d["grid"], d["tp"] = mn, vr, rows, tp
    else:
        d["mn"] = np.asarray(fit.posterior_mean, float).copy()
        d["vr"] = np.full(N, np.nan)
    d["fit"] = fit
    return True, d


def maxrel(a, b, scale_a=1.0):
    """max relative difference between a*scale_a and b (nan==nan)"""
    a = np.asarray(a, float) * scale_a
    b = np.asarray(b, float)
    with np.errstate(all="ignore"):
        d = np.abs(a - b) / np.maximum(np.maximum(np.abs(a), np.abs(b)), 1e-300)
    d = np.where((a == b) | (np.isnan(a) & np.isnan(b)), 0.0, d)
    d = np.where(np.isnan(d), np.inf, d)
    return float(d.max()) if d.size else 0.0


def compare(base, other, tol, c=1.0, fields=("t", "mt", "mn", "vr", "mmn", "mvr")):
    """other ?= base scaled by c (variances by c^2). returns list of (field, err) exceeding tol"""
    bad = []
    for f in fields:
        if f not in base or f not in other:
            continue
        sc = c * c if f in ("vr", "mvr") else c
        e = maxrel(base[f], other[f], sc)
        if not e <= tol:
            bad.append((f, e))
    return bad


def has_near_ties(mn, nonsample, rel=1e-9):
    v = np.sort(np.asarray(mn, float)[nonsample])
    v = v[np.isfinite(v)]
    if v.size < 2:
        return False
    return bool(np.any(np.diff(v) <= rel * np.maximum(np.abs(v[1:]), 1e-300)))


class ChangepointTieProbe:
    """Observes the real rescaling step (module-level name variational.mutational_timescale) and reports whether
    some cumulative mutational-area fraction falls within 1e-9 of a requested quantile k/intervals: there the
    choice of changepoint is decided by rounding (cf. C26's boundary rule), so any inexact rescaling of units or
    coordinates may legitimately move a breakpoint."""

    def __init__(self):
        self.tie = False
        self.calls = 0

    def __enter__(self):
        from tsdate import rescaling as R
        from tsdate import variational as V

        self._V, self._real = V, V.mutational_timescale

        def spy(nodes_time, likelihoods, nodes_fixed, edges_parent, edges_child, max_intervals):
            self.calls += 1
            try:
                c, o, d, idx = R.mutational_area(nodes_time, likelihoods, edges_parent, edges_child)
                w = np.asarray(o) * np.asarray(d)
                if w.sum() > 0 and max_intervals > 1:
                    Z = np.append(0.0, np.cumsum(w)) / w.sum()
                    q = np.arange(1, int(min(max_intervals, 10**6))) / max_intervals
                    if q.size and Z.size:
                        j = np.searchsorted(q, Z)
                        near = np.minimum(np.abs(Z - q[np.clip(j, 0, q.size - 1)]), np.abs(Z - q[np.clip(j - 1, 0, q.size - 1)]))
                        if np.any(near[1:-1] <= 1e-9):
                            self.tie = True
            except Exception:  # noqa: BLE001
                pass
            return self._real(nodes_time, likelihoods, nodes_fixed, edges_parent, edges_child, max_intervals)

        V.mutational_timescale = spy
        return self

    def __exit__(self, *a):
        self._V.mutational_timescale = self._real
