"""Helpers for metamorphic checks: run one dating call and extract every numeric output."""

import numpy as np
import tskit

from . import dating
from .common import call


def outputs(method, ts, mu, cfg, popsize=None):
    """returns (True, dict) or (False, exception).  dict: t (node times), mt (mutation times), mn/vr (node posterior
    mean/var from the fit object; nan where undefined), mmn/mvr (mutation posteriors, VG only), mnode, grid (IO rows)"""
    kw = dict(cfg, return_fit=True)
    ok, res = call(dating.method_call, method, ts, mu, kw, popsize=popsize)
    if not ok:
        return False, res
    out, fit = res
    d = {"t": out.nodes_time.copy(), "mt": out.mutations_time.copy(), "mnode": out.mutations_node.copy(), "ts": out}
    N = ts.num_nodes
    if method == "variational_gamma":
        p = fit.node_posteriors()
        d["mn"], d["vr"] = np.array(p["mean"]), np.array(p["variance"])
        q = fit.mutation_posteriors()
        d["mmn"], d["mvr"] = np.array(q["mean"]), np.array(q["variance"])
    elif method == "inside_outside":
        grid = fit.posterior_grid
        tp = np.asarray(grid.timepoints, float)
        mn = np.full(N, np.nan)
        vr = np.full(N, np.nan)
        rows = {}
        for u in grid.nonfixed_nodes:
            r = np.asarray(grid[u], float)
            rows[int(u)] = r
            mn[u] = float(np.dot(r, tp) / r.sum())
            vr[u] = float(np.dot(r / r.sum(), (tp - mn[u]) ** 2))
        d["mn"], d["vr"], d["grid"], d["tp"] = mn, vr, rows, tp
    else:
        d["mn"] = np.asarray(fit.posterior_mean, float).copy()
        d["vr"] = np.full(N, np.nan)
    d["fit"] = fit
    return True, d


def maxrel(a, b, scale_a=1.0):
    """max relative difference between a*scale_a and b (nan==nan)"""
    a = np.asarray(a, float) * scale_a
    b = np.asarray(b, float)
    with np.errstate(all="ignore"):
        d = np.abs(a - b) / np.maximum(np.maximum(np.abs(a), np.abs(b)), 1e-300)
    d = np.where((a == b) | (np.isnan(a) & np.isnan(b)), 0.0, d)
    d = np.where(np.isnan(d), np.inf, d)
    return float(d.max()) if d.size else 0.0


def compare(base, other, tol, c=1.0, fields=("t", "mt", "mn", "vr", "mmn", "mvr")):
    """other ?= base scaled by c (variances by c^2). returns list of (field, err) exceeding tol"""
    bad = []
    for f in fields:
        if f not in base or f not in other:
            continue
        sc = c * c if f in ("vr", "mvr") else c
        e = maxrel(base[f], other[f], sc)
        if not e <= tol:
            bad.append((f, e))
    return bad


def has_near_ties(mn, nonsample, rel=1e-9):
    v = np.sort(np.asarray(mn, float)[nonsample])
    v = v[np.isfinite(v)]
    if v.size < 2:
        return False
    return bool(np.any(np.diff(v) <= rel * np.maximum(np.abs(v[1:]), 1e-300)))
