"""Small helpers shared by checks (imported after env.setup())."""

import copy
import io
import logging
import warnings

import numpy as np
import tskit

CLEAN = (ValueError, NotImplementedError)


def classify_exc(e):
    """'clean' for documented rejections, else a short internal-error label."""
    if isinstance(e, CLEAN) and not isinstance(e, (tskit.LibraryError,)) and str(e).strip():
        # numba typing errors subclass TypeError, LibraryError subclasses nothing of CLEAN
        return "clean"
    return "internal:" + type(e).__name__


def call(fn, *a, **k):
    """returns (True, value) or (False, exception)"""
    try:
        with warnings.catch_warnings():
            warnings.simplefilter("ignore")
            return True, fn(*a, **k)
    except Exception as e:  # noqa: BLE001
        return False, e


def exc_text(e, n=160):
    return f"{type(e).__name__}: {str(e)[:n]}"


def edge_mut_counts(ts):
    """Direct tally: mutations per edge (mutations above roots on no edge)."""
    out = np.zeros(ts.num_edges, dtype=int)
    for m in ts.mutations():
        if m.edge != tskit.NULL:
            out[m.edge] += 1
    return out


def nonsample_nodes(ts):
    return [u for u in range(ts.num_nodes) if not (ts.nodes_flags[u] & tskit.NODE_IS_SAMPLE)]


def relerr(a, b):
    a = np.asarray(a, dtype=float)
    b = np.asarray(b, dtype=float)
    with np.errstate(all="ignore"):
        d = np.abs(a - b) / np.maximum(np.maximum(np.abs(a), np.abs(b)), 1e-300)
    d = np.where((a == b) | (np.isnan(a) & np.isnan(b)), 0.0, d)
    d = np.where(np.isnan(d), np.inf, d)
    return float(np.max(d)) if d.size else 0.0


def node_md(ts, key):
    """decoded mn/vr per node (nan when absent)"""
    import json

    out = np.full(ts.num_nodes, np.nan)
    for nd in ts.nodes():
        md = nd.metadata
        if isinstance(md, bytes):
            if len(md) == 0:
                continue
            try:
                md = json.loads(md.decode())
            except Exception:
                continue
        if isinstance(md, dict) and key in md:
            out[nd.id] = md[key]
    return out


def mut_md(ts, key):
    import json

    out = np.full(ts.num_mutations, np.nan)
    for m in ts.mutations():
        md = m.metadata
        if isinstance(md, bytes):
            if len(md) == 0:
                continue
            try:
                md = json.loads(md.decode())
            except Exception:
                continue
        if isinstance(md, dict) and key in md:
            out[m.id] = md[key]
    return out


class LogCapture:
    """capture log records of the tsdate loggers during a call"""

    def __enter__(self):
        self.records = []
        self.handler = logging.Handler()
        self.handler.emit = lambda rec: self.records.append(rec)
        self.handler.setLevel(logging.DEBUG)
        self.lg = logging.getLogger("tsdate")
        self.old_level = self.lg.level
        self.lg.setLevel(logging.DEBUG)
        self.lg.addHandler(self.handler)
        self.old_disable = logging.root.manager.disable
        logging.disable(logging.NOTSET)
        return self

    def __exit__(self, *a):
        self.lg.removeHandler(self.handler)
        self.lg.setLevel(self.old_level)
        logging.disable(self.old_disable)

    def warnings(self):
        return [r for r in self.records if r.levelno >= logging.WARNING]
