"""Stateless, deterministic scheduler for real Python threads (C36, C09).

Exactly one actor thread runs at a time.  Actors stop at scheduling points (the I/O shim calls
`sched.point(rec)` before every file-system operation); the controller then picks which actor
performs its pending operation next.  Executions always run to completion.

`explore(make_run, bound)` enumerates schedules depth-first with iterative preemption bounding:
a choice that switches away from a still-enabled running actor costs one preemption.
Replaying a prefix must reproduce the same enabled sets -- divergence is a hard error.
"""

import threading


class Divergence(RuntimeError):
    pass


class Execution:
    def __init__(self, bodies, prefix):
        self.bodies = bodies
        self.prefix = list(prefix)
        self.points = []  # dict(enabled=[ids], chosen=index, running=id or None, pending=[op kinds])
        self.choices = []
        self.results = [None] * len(bodies)
        self.errors = [None] * len(bodies)
        self._go = [threading.Semaphore(0) for _ in bodies]
        self._ctl = threading.Semaphore(0)
        self._done = [False] * len(bodies)
        self._pending = [None] * len(bodies)
        self._ids = {}

    # called from actor threads (through the shim hook)
    def point(self, rec):
        i = self._ids.get(threading.get_ident())
        if i is None:
            return  # not an actor (e.g. the controller doing set-up): run freely
        self._pending[i] = rec.get("op", "?")
        self._ctl.release()
        self._go[i].acquire()
        self._pending[i] = None

    def _actor(self, i):
        self._ids[threading.get_ident()] = i
        self._go[i].acquire()
        try:
            self.results[i] = self.bodies[i]()
        except BaseException as e:  # noqa: BLE001
            self.errors[i] = e
        self._done[i] = True
        self._ctl.release()

    def run(self):
        threads = [threading.Thread(target=self._actor, args=(i,), name=f"actor{i}", daemon=True) for i in range(len(self.bodies))]
        for t in threads:
            t.start()
        running = None
        step = 0
        while True:
            enabled = [i for i in range(len(self.bodies)) if not self._done[i]]
            if not enabled:
                break
            # canonical order: the running actor first if still enabled, then ascending ids
            if running in enabled:
                enabled = [running] + [i for i in enabled if i != running]
            if step < len(self.prefix):
                c = self.prefix[step]
                if c >= len(enabled):
                    raise Divergence(f"replay step {step}: choice {c} but only {len(enabled)} enabled")
            else:
                c = 0
            self.points.append({"enabled": list(enabled), "chosen": c, "running": running, "running_enabled": running in enabled, "pending": [self._pending[i] for i in enabled]})
            self.choices.append(c)
            nxt = enabled[c]
            running = nxt
            self._go[nxt].release()
            self._ctl.acquire()  # until that actor reaches its next point or finishes
            step += 1
        for t in threads:
            t.join(timeout=10)
        return self

    def preemptions_before(self, i):
        n = 0
        for p in self.points[:i]:
            if p["chosen"] > 0 and p["running_enabled"]:
                n += 1
        return n


def explore(make_bodies, check, bound, max_executions=None):
    """make_bodies() -> (bodies, context) builds a FRESH set of actor callables (fresh directory, fresh shim);
    check(execution, context) -> list of violations.  Returns stats dict."""
    stats = {"executions": 0, "points": 0, "max_depth": 0, "violations": [], "capped": False, "outcomes": set()}

    def rec(prefix):
        if max_executions and stats["executions"] >= max_executions:
            stats["capped"] = True
            return
        bodies, ctx = make_bodies()
        ex = Execution(bodies, prefix)
        ctx["execution"] = ex
        ctx["attach"](ex)
        try:
            ex.run()
        finally:
            ctx["detach"]()
        stats["executions"] += 1
        stats["points"] += len(ex.points)
        stats["max_depth"] = max(stats["max_depth"], len(ex.points))
        for v in check(ex, ctx) or []:
            v["schedule"] = list(ex.choices)
            stats["violations"].append(v)
        stats["outcomes"].add(ctx.get("outcome"))
        for i in range(len(prefix), len(ex.points)):
            p = ex.points[i]
            cost = ex.preemptions_before(i)
            for alt in range(1, len(p["enabled"])):
                c = cost + (1 if p["running_enabled"] else 0)
                if c > bound:
                    continue
                rec(ex.choices[:i] + [alt])

    rec([])
    return stats
