"""Runner: executes every case of a check on the real code in forked workers,
aggregates verdicts, classifies violations against known_findings.json, writes
replay files and the evidence file."""

import hashlib
import importlib
import json
import multiprocessing
import os
import shutil
import sys
import time
import traceback
from collections import Counter

from . import env

VERIF = env.VERIF
EVIDENCE_DIR = os.environ.get("VERIF_EVIDENCE_DIR") or os.path.join(VERIF, "evidence")  # override only when trying seeded mutants
REPLAY_DIR = os.environ.get("VERIF_REPLAY_DIR") or os.path.join(VERIF, "replays")
FINDINGS = os.path.join(VERIF, "known_findings.json")

_MOD = None


def _jsonable(x):
    import numpy as np

    if isinstance(x, dict):
        return {str(k): _jsonable(v) for k, v in x.items()}
    if isinstance(x, (list, tuple, set, frozenset)):
        return [_jsonable(v) for v in x]
    if isinstance(x, np.ndarray):
        return _jsonable(x.tolist())
    if isinstance(x, (np.integer,)):
        return int(x)
    if isinstance(x, (np.floating,)):
        x = float(x)
    if isinstance(x, float):
        if x != x or x in (float("inf"), float("-inf")):
            return repr(x)
        return x
    if isinstance(x, (np.bool_,)):
        return bool(x)
    if isinstance(x, bytes):
        return x.decode("latin1")
    if x is None or isinstance(x, (str, int, bool)):
        return x
    return repr(x)


def _say(*a):
    """print that survives a reader which has gone away (e.g. `./check ... | head`)"""
    try:
        print(*a)
        sys.stdout.flush()
    except BrokenPipeError:
        try:
            sys.stdout = open(os.devnull, "w")
        except OSError:
            pass


def _work(item):
    idx, case = item
    t0 = time.time()
    try:
        res = _MOD.run(case)
        res.setdefault("evals", 1)
        res.setdefault("viol", [])
        res.setdefault("tags", {})
        res.setdefault("keys", [])
    except BaseException as e:  # harness bug, not a verdict
        res = {
            "evals": 0,
            "viol": [],
            "tags": {},
            "keys": [],
            "harness_error": f"{type(e).__name__}: {e}\n{traceback.format_exc()}",
        }
    res["idx"] = idx
    res["t"] = time.time() - t0
    return res


def load_findings(prop):
    if not os.path.exists(FINDINGS):
        return []
    with open(FINDINGS) as f:
        data = json.load(f)
    return [x for x in data.get("findings", []) if x.get("property") == prop and x.get("status") == "known"]


def match_finding(findings, v):
    for f in findings:
        if v.get("kind") not in ([f["kind"]] if "kind" in f else f.get("kinds", [])):
            continue
        where = f.get("where", {})
        facts = v.get("facts", {})
        if all(facts.get(k) == val for k, val in where.items()):
            return f
    return None


def run_check(prop, tier, replay=None, workers=None):
    global _MOD
    t_start = time.time()
    seed = int(os.environ.get("VERIF_SEED", "0"))
    scratch = env.setup()
    try:
        return _run_check(prop, tier, seed, replay, workers, t_start, scratch)
    finally:
        shutil.rmtree(scratch, ignore_errors=True)


def _run_check(prop, tier, seed, replay, workers, t_start, scratch):
    global _MOD
    mod = importlib.import_module(f"checks.{prop}")
    _MOD = mod
    mod.SCRATCH = scratch
    needs_tsdate = getattr(mod, "NEEDS_TSDATE", True)
    t_imp = env.import_tsdate() if needs_tsdate else 0.0
    if hasattr(mod, "warmup"):
        mod.warmup()
    t_warm = time.time() - t_start

    if replay:
        with open(replay) as f:
            rp = json.load(f)
        res = _work((0, rp["case"]))
        if "harness_error" in res:
            print(res["harness_error"])
            return 2
        kinds = [v["kind"] for v in res["viol"]]
        print(json.dumps(_jsonable({"replayed": replay, "violations": res["viol"]}), indent=1)[:6000])
        if rp.get("violation", {}).get("kind") in kinds or (not rp.get("violation") and kinds):
            print(f"VIOLATION property={prop} replay={replay}")
            return 1
        print("replay: violation not reproduced")
        return 0

    spec = mod.cases(tier, seed)
    cases = spec["cases"]
    stride = int(os.environ.get("VERIF_STRIDE", "1"))  # development aid only: never set by registered commands
    if stride > 1:
        cases = cases[::stride]
        spec["exhaustive"] = False
        spec["bound"] = f"(DEV STRIDE {stride}) " + spec.get("bound", "")
    budget = float(os.environ.get("VERIF_BUDGET_S", spec.get("budget_s", 0)) or 0)
    if not budget and tier == "thorough":
        budget = 3 * 3600.0  # a thorough run that hits this is reported as capped, never as exhaustive
    nwork = workers or int(os.environ.get("VERIF_WORKERS", "16"))
    nwork = max(1, min(nwork, len(cases)))
    serial = getattr(mod, "SERIAL", False) or nwork == 1
    results = []
    capped = False
    items = list(enumerate(cases))
    if serial:
        for it in items:
            results.append(_work(it))
            if budget and time.time() - t_start > budget:
                capped = True
                break
    else:
        ctx = multiprocessing.get_context("fork")
        chunk = max(1, min(64, len(items) // (nwork * 8) or 1))
        with ctx.Pool(nwork) as pool:
            for r in pool.imap_unordered(_work, items, chunksize=chunk):
                results.append(r)
                if budget and time.time() - t_start > budget:
                    capped = True
                    pool.terminate()
                    break
    results.sort(key=lambda r: r["idx"])

    harness_errors = [r for r in results if "harness_error" in r]
    evals = sum(r["evals"] for r in results)
    tags = Counter()
    keys = set()
    for r in results:
        tags.update(r["tags"])
        keys.update(r["keys"])
    findings = load_findings(prop)
    known = {}
    unknown = []
    for r in results:
        for v in r["viol"]:
            v["case"] = cases[r["idx"]]
            f = match_finding(findings, v)
            if f is not None:
                known.setdefault(f["id"], [f, 0, v])
                known[f["id"]][1] += 1
            else:
                unknown.append(v)
    if hasattr(mod, "finalize"):
        # whole-run oracles (e.g. cross-case agreement); may add violations
        extra = mod.finalize(results, cases) or []
        for v in extra:
            f = match_finding(findings, v)
            if f is not None:
                known.setdefault(f["id"], [f, 0, v])
                known[f["id"]][1] += 1
            else:
                unknown.append(v)

    os.makedirs(REPLAY_DIR, exist_ok=True)
    os.makedirs(EVIDENCE_DIR, exist_ok=True)
    lines = []
    seen_kinds = Counter()
    replay_paths = []
    for v in unknown:
        seen_kinds[v["kind"]] += 1
        if seen_kinds[v["kind"]] > int(os.environ.get("VERIF_MAX_REPLAYS", "3")):
            continue  # at most 3 replay files per violation kind (dev: VERIF_MAX_REPLAYS)
        body = _jsonable({"property": prop, "tier": tier, "case": v.get("case"), "violation": {k: v[k] for k in v if k != "case"}})
        h = hashlib.sha256(json.dumps(body, sort_keys=True).encode()).hexdigest()[:12]
        path = os.path.join(REPLAY_DIR, f"{prop}-{h}.json")
        with open(path, "w") as f:
            json.dump(body, f, indent=1)
        replay_paths.append(path)
        lines.append(f"VIOLATION property={prop} replay={path}")
        lines.append(f"  kind={v['kind']} {str(v.get('msg', ''))[:400]}")
    for fid, (f, cnt, v) in sorted(known.items()):
        lines.append(f"KNOWN-FINDING: property={prop} {fid} {f.get('description', '')} [{cnt} occurrence(s) this run]")

    wall = time.time() - t_start
    level = spec.get("level", getattr(mod, "LEVEL", "model_checking"))
    samples = [_jsonable(c) for c in cases[:2]]
    if unknown:
        samples.append(_jsonable({k: unknown[0][k] for k in unknown[0] if k != "case"}))
    cov = {
        "evaluations": int(evals),
        "distinct_nontrivial": len(keys),
        "rule": spec.get("rule", getattr(mod, "RULE", "")),
        "samples": samples,
        "exhaustive": bool(spec.get("exhaustive", True)) and not capped and not harness_errors,
        "bound": spec.get("bound", ""),
        "cases": len(cases),
        "cases_completed": len(results),
        "capped": capped,
        "branch_counters": dict(sorted(tags.items())),
        "violation_kinds": dict(seen_kinds),
        "known_findings_seen": {fid: cnt for fid, (f, cnt, v) in known.items()},
        "import_s": round(t_imp, 1),
        "warmup_s": round(t_warm, 1),
        "workers": nwork,
    }
    if level == "model_checking":
        cov["generator_states"] = int(spec.get("states", 0)) + int(tags.get("mc_states", 0))
        cov["states"] = cov["generator_states"] + int(evals)  # generator states + executed terminal states
        cov["transitions"] = int(spec.get("transitions", 0)) + int(tags.get("mc_transitions", 0)) + int(evals)  # + one decorate-and-execute transition per evaluation
        cov["traces_validated_against_impl"] = int(evals)
    for k, val in spec.get("extra", {}).items():
        cov[k] = _jsonable(val)
    ev = {
        "property_id": prop,
        "tier": tier,
        "seed": seed,
        "level": level,
        "coverage": cov,
        "assumptions": list(getattr(mod, "ASSUMPTIONS", [])),
        "wall_s": round(wall, 2),
        "violations": len(unknown),
    }
    tmp = os.path.join(EVIDENCE_DIR, f".{prop}.{os.getpid()}.tmp")
    with open(tmp, "w") as f:
        json.dump(ev, f, indent=1)
    os.replace(tmp, os.path.join(EVIDENCE_DIR, f"{prop}.json"))

    _say(
        f"[{prop} {tier}] cases={len(cases)} done={len(results)} evaluations={evals} "
        f"distinct_nontrivial={len(keys)} violations={len(unknown)} known={sum(c for _, c, _ in known.values())} "
        f"capped={capped} wall={wall:.1f}s"
    )
    for k, val in sorted(tags.items()):
        _say(f"    {k}: {val}")
    for ln in lines:
        _say(ln)
    if harness_errors:
        _say(f"HARNESS-ERROR in {len(harness_errors)} case(s); first:\n{harness_errors[0]['harness_error']}")
        _say(json.dumps(_jsonable(cases[harness_errors[0]['idx']]))[:2000])
        return 2
    return 1 if unknown else 0
