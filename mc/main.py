import sys


def main(argv):
    if len(argv) < 2:
        print("usage: check Cxx quick|thorough | check Cxx --replay <file>")
        return 2
    prop = argv[0]
    from . import explore

    if argv[1] == "--replay":
        return explore.run_check(prop, "quick", replay=argv[2])
    return explore.run_check(prop, argv[1])


if __name__ == "__main__":
    sys.exit(main(sys.argv[1:]))
