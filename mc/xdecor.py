"""'Irrelevant data' decorators (X): metadata, schemas, states, populations,
individuals, provenance, migrations, monomorphic sites, top-level metadata."""

import json

import numpy as np
import tskit

PERMISSIVE = tskit.MetadataSchema.permissive_json()
RESTRICTIVE = tskit.MetadataSchema(
    {"codec": "json", "type": "object", "properties": {"name": {"type": "string"}}, "additionalProperties": False}
)
STRUCT_WITH = tskit.MetadataSchema(
    {
        "codec": "struct",
        "type": "object",
        "properties": {
            "mn": {"type": "number", "binaryFormat": "d"},
            "vr": {"type": "number", "binaryFormat": "d"},
            "k": {"type": "integer", "binaryFormat": "i"},
        },
    }
)
STRUCT_WITHOUT = tskit.MetadataSchema(
    {"codec": "struct", "type": "object", "properties": {"k": {"type": "integer", "binaryFormat": "i"}}}
)

X_VARIANTS = ["plain", "rich", "struct", "rawbytes", "migrations", "mono_sites", "states", "edge_md", "redated", "uniform"]


def _set_md(table, schema, rows):
    table.metadata_schema = schema
    table.packset_metadata([schema.validate_and_encode_row(r) for r in rows])


def decorate(ts, variant, diploid=False):
    t = ts.dump_tables()
    if variant == "plain":
        pass
    elif variant == "rich":
        t.metadata_schema = PERMISSIVE
        t.metadata = {"top": "level", "n": 3}
        t.populations.metadata_schema = PERMISSIVE
        for i in range(3):
            t.populations.add_row(metadata={"name": f"pop{i}"})
        pop = np.array([(u % 2) for u in range(t.nodes.num_rows)], dtype=np.int32)
        t.nodes.population = pop
        _set_md(t.nodes, PERMISSIVE, [{"name": f"n{u}", "mn": -1.0} for u in range(t.nodes.num_rows)])
        _set_md(t.mutations, PERMISSIVE, [{"who": m} for m in range(t.mutations.num_rows)])
        _set_md(t.sites, PERMISSIVE, [{"s": s} for s in range(t.sites.num_rows)])
        t.provenances.add_row(record=json.dumps({"software": {"name": "x"}}), timestamp="2000-01-01T00:00:00")
        t.provenances.add_row(record=json.dumps({"software": {"name": "y"}}), timestamp="2001-01-01T00:00:00")
        t.time_units = tskit.TIME_UNITS_UNCALIBRATED
        t.reference_sequence.data = "ACGT"
    elif variant == "struct":
        _set_md(t.nodes, STRUCT_WITH, [{"mn": 0.0, "vr": 0.0, "k": u} for u in range(t.nodes.num_rows)])
        _set_md(t.mutations, STRUCT_WITH, [{"mn": 0.0, "vr": 0.0, "k": m} for m in range(t.mutations.num_rows)])
    elif variant == "rawbytes":
        t.nodes.packset_metadata([b"raw%d" % u for u in range(t.nodes.num_rows)])
        t.mutations.packset_metadata([b"\xff\x00m%d" % m for m in range(t.mutations.num_rows)])
    elif variant == "migrations":
        t.populations.add_row()
        t.populations.add_row()
        t.nodes.population = np.zeros(t.nodes.num_rows, dtype=np.int32)
        t.migrations.add_row(left=0, right=t.sequence_length, node=0, source=0, dest=1, time=0.25 * min(x for x in t.nodes.time if x > 0))
    elif variant == "mono_sites":
        # monomorphic sites in every gap between existing sites and at both ends
        pos = sorted(set(t.sites.position))
        cand = [0.0] + [(a + b) / 2 for a, b in zip(pos[:-1], pos[1:])]
        for p in cand:
            if p not in pos:
                t.sites.add_row(p, "G")
                pos.append(p)
        t.sort()
        t.build_index()
        t.compute_mutation_parents()
    elif variant == "states":
        anc = ["", "ACGT", "A", "long-ancestral-state"]
        der = ["", "TTTT", "T", "0"]
        sites = t.sites.copy()
        t.sites.clear()
        for i, s in enumerate(sites):
            t.sites.append(s.replace(ancestral_state=anc[i % 4]))
        muts = t.mutations.copy()
        t.mutations.clear()
        for i, m in enumerate(muts):
            t.mutations.append(m.replace(derived_state=der[i % 4]))
    elif variant == "redated":
        # the state left by an earlier tsdate run followed by user annotation (or by preprocess_ts, which adds
        # unsplit_node_id): tsdate's own default schemas, rows holding mn/vr AND other keys
        from tsdate import schemas

        _set_md(t.nodes, schemas.default_node_schema, [{"mn": 1.0 + u, "vr": 0.5, "unsplit_node_id": u, "note": f"n{u}"} for u in range(t.nodes.num_rows)])
        _set_md(t.mutations, schemas.default_mutation_schema, [{"mn": 0.5, "vr": 0.25, "annot": m} for m in range(t.mutations.num_rows)])
    elif variant == "uniform":
        # the same annotation on every row (byte-identical metadata), under a schema that accepts mn/vr
        _set_md(t.nodes, PERMISSIVE, [{"src": "pipeline"} for _ in range(t.nodes.num_rows)])
        _set_md(t.mutations, PERMISSIVE, [{} for _ in range(t.mutations.num_rows)])
    elif variant == "edge_md":
        _set_md(t.edges, PERMISSIVE, [{"e": e} for e in range(t.edges.num_rows)])
    else:
        raise KeyError(variant)
    if diploid == "rich":
        # individuals with location, parents, flags and metadata
        t.individuals.metadata_schema = PERMISSIVE
        smp = [u for u in range(t.nodes.num_rows) if t.nodes.flags[u] & 1 and t.nodes.time[u] == 0]
        ind = t.nodes.individual.copy()
        for k in range(0, len(smp) - 1, 2):
            i = t.individuals.add_row(flags=k, location=[k, 1.5], parents=[-1, -1], metadata={"id": k})
            ind[smp[k]] = i
            ind[smp[k + 1]] = i
        t.nodes.individual = ind
    return t.tree_sequence()
