"""Explicit-state explorer of the tree-sequence input space.

A tree sequence is the terminal state of a small ancestral-recombination
transition system (a Lambda-coalescent with recombination over L unit loci):

  state     (lineages, edges, next node id, recombinations left, last new node)
            a lineage is (node id, bitmask of ancestral loci still carried)
  events    CA(i,j)  lineages i and j coalesce in a new node (next time rank)
            MM(i)    lineage i also joins the node created last (polytomy)
            RE(i,b)  lineage i is split at locus boundary b (budget R)
  terminal  no ancestral material left (each locus has found its MRCA)

The search is breadth first over *canonical* states: a state is keyed by its
lineage multiset, edge set and bookkeeping, minimised over all n! sample
relabellings.  Every event is equivariant under a sample permutation, hence
two states with the same key have the same futures up to that relabelling.
Time ranks of internal nodes are part of the key.

Nothing in this module imports tsdate: universes are independent of /repo.
"""

import itertools
import json
import os
from collections import deque

import numpy as np
import tskit

BUILD_DIR = os.path.join(os.path.dirname(os.path.dirname(os.path.abspath(__file__))), "build")


def _runs(mask, L):
    out = []
    i = 0
    while i < L:
        if mask >> i & 1:
            j = i
            while j < L and mask >> j & 1:
                j += 1
            out.append((i, j))
            i = j
        else:
            i += 1
    return out


def _prune(lineages, L):
    """Hudson: drop loci whose material has found its MRCA."""
    cnt = [0] * L
    for _, m in lineages:
        for l in range(L):
            if m >> l & 1:
                cnt[l] += 1
    dead = 0
    for l in range(L):
        if cnt[l] == 1:
            dead |= 1 << l
    if dead:
        lineages = tuple((u, m & ~dead) for (u, m) in lineages)
        lineages = tuple((u, m) for (u, m) in lineages if m)
    return lineages


def _canon_state(n, perms, lineages, edges, nn, rleft, last):
    best = None
    for perm in perms:
        ln = tuple(sorted(((perm[u] if u < n else u), m) for (u, m) in lineages))
        ed = tuple(sorted((a, b, p, (perm[c] if c < n else c)) for (a, b, p, c) in edges))
        key = (ln, ed)
        if best is None or key < best:
            best = key
    return (best[0], best[1], nn, rleft, last)


def successors(n, L, state, allow_mm=True):
    """yield (event, raw successor state) for every enabled event"""
    lineages, edges, nn, rleft, last = state
    k = len(lineages)
    for i in range(k):
        for j in range(i + 1, k):
            (ui, mi), (uj, mj) = lineages[i], lineages[j]
            if ui == uj:
                continue  # two halves of one node: would put the same child twice under u
            u = nn
            e = list(edges)
            for a, b in _runs(mi, L):
                e.append((a, b, u, ui))
            for a, b in _runs(mj, L):
                e.append((a, b, u, uj))
            rest = tuple(x for t, x in enumerate(lineages) if t not in (i, j))
            yield ("CA", i, j), (_prune(rest + ((u, mi | mj),), L), tuple(e), nn + 1, rleft, u)
    if allow_mm and last is not None:
        idx = [t for t, (u, m) in enumerate(lineages) if u == last]
        if len(idx) == 1:
            t0 = idx[0]
            for i in range(k):
                if i == t0:
                    continue
                ui, mi = lineages[i]
                e = list(edges)
                for a, b in _runs(mi, L):
                    e.append((a, b, last, ui))
                rest = tuple(x for t, x in enumerate(lineages) if t not in (i, t0))
                yield ("MM", i), (
                    _prune(rest + ((last, lineages[t0][1] | mi),), L),
                    tuple(e),
                    nn,
                    rleft,
                    last,
                )
    if rleft > 0:
        for i in range(k):
            u, m = lineages[i]
            for b in range(1, L):
                lo = m & ((1 << b) - 1)
                hi = m & ~((1 << b) - 1)
                if lo and hi:
                    rest = tuple(x for t, x in enumerate(lineages) if t != i)
                    yield ("RE", i, b), (rest + ((u, lo), (u, hi)), edges, nn, rleft - 1, None)


def explore(n, L, R, allow_mm=True):
    """Breadth-first search of the generator.  Returns a dict with measured
    states / transitions and the list of terminal (nn, edges, history)."""
    perms = list(itertools.permutations(range(n)))
    full = (1 << L) - 1
    init = _canon_state(n, perms, tuple((i, full) for i in range(n)), (), n, R, None)
    seen = {init: ()}
    frontier = deque([init])
    transitions = 0
    terminals = []
    while frontier:
        st = frontier.popleft()
        hist = seen[st]
        if not st[0]:
            terminals.append((st[2], st[1], hist))
            continue
        for ev, raw in successors(n, L, st, allow_mm):
            transitions += 1
            # a MM after the merged lineage dies is meaningless; raw[4] may refer to a
            # node that no longer has a lineage -> successors() handles it (len(idx)!=1)
            key = _canon_state(n, perms, *raw)
            if key not in seen:
                seen[key] = hist + (ev,)
                frontier.append(key)
    return {
        "n": n,
        "L": L,
        "R": R,
        "states": len(seen),
        "transitions": transitions,
        "terminals": terminals,
    }


def arg_tables(arg, simplify=True):
    """ARG descriptor -> tskit.TableCollection (ranks as times)."""
    n, L, nn = arg["n"], arg["L"], arg["nn"]
    t = tskit.TableCollection(sequence_length=L)
    for _ in range(n):
        t.nodes.add_row(flags=tskit.NODE_IS_SAMPLE, time=0)
    for i in range(n, nn):
        t.nodes.add_row(flags=0, time=i - n + 1)
    for a, b, p, c in arg["edges"]:
        t.edges.add_row(a, b, p, c)
    t.sort()
    t.edges.squash()
    t.sort()
    if simplify:
        t.simplify()
    if arg.get("renumber"):
        t = renumber_nodes(t.tree_sequence(), arg["renumber"])[0].dump_tables()
    return t


def arg_ts(arg, simplify=True):
    return arg_tables(arg, simplify).tree_sequence()


def _canon_ts_key(ts):
    n = ts.num_samples
    E = [(e.left, e.right, e.parent, e.child) for e in ts.edges()]
    best = None
    for perm in itertools.permutations(range(n)):
        key = tuple(sorted((l, r, p, (perm[c] if c < n else c)) for (l, r, p, c) in E))
        if best is None or key < best:
            best = key
    return (ts.num_nodes, best)


def universe(n, L, R, simplify=True, allow_mm=True, cache=True):
    """Distinct ARGs (up to sample relabelling, after optional simplification) of
    U(n,L,R).  Returns dict(states, transitions, histories, args=[descriptor...])."""
    name = f"U_{n}_{L}_{R}_{int(simplify)}_{int(allow_mm)}.json"
    path = os.path.join(BUILD_DIR, name)
    if cache and os.path.exists(path):
        with open(path) as f:
            return json.load(f)
    ex = explore(n, L, R, allow_mm)
    seen = {}
    for nn, edges, hist in ex["terminals"]:
        arg = {"n": n, "L": L, "nn": nn, "edges": [list(e) for e in edges]}
        ts = arg_ts(arg, simplify)
        key = _canon_ts_key(ts)
        if key not in seen:
            arg["hist"] = [list(h) for h in hist]
            arg["id"] = f"U{n}{L}{R}{'' if simplify else 'u'}#{len(seen)}"
            arg["trees"] = ts.num_trees
            seen[key] = arg
    out = {
        "n": n,
        "L": L,
        "R": R,
        "states": ex["states"],
        "transitions": ex["transitions"],
        "terminal_states": len(ex["terminals"]),
        "args": list(seen.values()),
    }
    if cache:
        os.makedirs(BUILD_DIR, exist_ok=True)
        tmp = path + f".{os.getpid()}.tmp"
        with open(tmp, "w") as f:
            json.dump(out, f)
        os.replace(tmp, path)
    return out


# ---------------------------------------------------------------- named universes
QUICK = [(2, 1, 0), (3, 1, 0), (4, 1, 0), (2, 3, 2), (3, 2, 1), (3, 3, 1), (4, 2, 1)]
THOROUGH = QUICK + [(3, 3, 2), (4, 3, 1), (5, 1, 0)]  # ~4x the quick ARG set; with the larger menus 15-40x the work
DEEP = THOROUGH + [(4, 2, 2), (5, 2, 1), (4, 3, 2), (6, 1, 0)]  # built by setup, available to ad-hoc runs


class Space:
    """A union of universes with summed generator statistics."""

    def __init__(self, specs, simplify=True, allow_mm=True, renumber=()):
        self.specs = list(specs)
        self.states = 0
        self.transitions = 0
        self.args = []
        seen = set()
        for n, L, R in self.specs:
            u = universe(n, L, R, simplify=simplify, allow_mm=allow_mm)
            self.states += u["states"]
            self.transitions += u["transitions"]
            for a in u["args"]:
                k = (a["n"], a["L"], a["nn"], tuple(map(tuple, a["edges"])))
                if k not in seen:
                    seen.add(k)
                    self.args.append(a)
                    if a["nn"] - a["n"] > 1:
                        # node-numbering decorator: same ARG, non-sample ids in another order
                        for how in renumber:
                            b = dict(a)
                            b["renumber"] = how
                            b["id"] = a["id"] + "~" + how
                            self.args.append(b)

    def describe(self):
        return "U(n,L,R) for " + ",".join(f"({n},{L},{R})" for n, L, R in self.specs)


def wide_arg(L, order="grow", nonuniform=False):
    """Hand-built family reaching code paths keyed on the NUMBER OF LOCAL TREES a node sees (e.g. the '>5 mixture
    components' branch of the prior): n = L+3 samples, clade node A = parent of samples 0,1 everywhere and of sample j+2
    over loci [j, L) ('grow') or [0, L-j) ('shrink'); root R above A, the remaining samples and sample n-1.  Node A has a
    different descendant count in every one of the L local trees."""
    n = L + 3
    A, R = n, n + 1
    edges = [[0, L, A, 0], [0, L, A, 1], [0, L, R, A], [0, L, R, n - 1]]
    for j in range(L):
        s = j + 2
        a, b = (j, L) if order == "grow" else (0, L - j)
        edges.append([a, b, A, s])
        if a > 0:
            edges.append([0, a, R, s])
        if b < L:
            edges.append([b, L, R, s])
    tot = L
    if nonuniform:  # local tree l has span l+1 instead of 1 (integer breakpoints l(l+1)/2)
        f = lambda x: x * (x + 1) // 2  # noqa: E731
        edges = [[f(a), f(b), p, c] for a, b, p, c in edges]
        tot = f(L)
    return {"n": n, "L": tot, "nn": n + 2, "edges": edges, "hist": [["WIDE", L, order, int(nonuniform)]], "id": f"W{L}{order}{'N' if nonuniform else ''}", "trees": L}


def wide_family(sizes=(5, 6, 7)):
    return [wide_arg(L, o, nu) for L in sizes for o in ("grow", "shrink") for nu in (False, True)]


def space(tier, simplify=True, renumber=()):
    return Space(QUICK if tier == "quick" else THOROUGH, simplify=simplify, renumber=renumber)


def single_trees(max_n, renumber=()):
    return Space([(n, 1, 0) for n in range(2, max_n + 1)], renumber=renumber)


# ---------------------------------------------------------------- decorators
def add_mutations(tables_or_ts, counts, above_root=0, isolated=None, recurrent=False):
    """Place counts[e] mutations on edge e (edge order of the given tree sequence),
    each on its own site at a distinct position inside the edge's span.  Returns ts."""
    ts = tables_or_ts if isinstance(tables_or_ts, tskit.TreeSequence) else tables_or_ts.tree_sequence()
    t = ts.dump_tables()
    req = []  # (locus, node)
    for e, c in zip(ts.edges(), counts):
        span = int(e.right - e.left)
        for k in range(int(c)):
            req.append((int(e.left) + (k % span), e.child))
    if above_root:
        for tree in ts.trees():
            for r in tree.roots:
                if tree.num_children(r) > 0:
                    for _ in range(above_root):
                        req.append((int(tree.interval.left), r))
    byloc = {}
    for loc, node in req:
        byloc.setdefault(loc, []).append(node)
    for loc in sorted(byloc):
        nodes = byloc[loc]
        m = len(nodes)
        for j, node in enumerate(nodes):
            s = t.sites.add_row(loc + (j + 1) / (m + 1), "A")
            t.mutations.add_row(s, node, derived_state="T")
            if recurrent and j == 0:
                # a second mutation at the same site on the same node (back mutation)
                t.mutations.add_row(s, node, derived_state="A")
    t.sort()
    t.build_index()
    t.compute_mutation_parents()
    return t.tree_sequence()


def mutation_patterns(num_edges, menu="Mp"):
    """Fixed pattern menu of per-edge counts (deterministic, complete)."""
    E = num_edges
    pats = [("ones", [1] * E), ("mod3", [i % 3 for i in range(E)]), ("mod3b", [(i + 1) % 3 for i in range(E)])]
    if menu == "Mp":
        for e in range(E):
            v = [1] * E
            v[e] = 5
            pats.append((f"spike{e}", v))
        for e in range(E):
            v = [0] * E
            v[e] = 1
            pats.append((f"single{e}", v))
    elif menu == "Ms":  # small menu
        v = [1] * E
        v[0] = 5
        pats.append(("spike0", v))
        v = [0] * E
        v[-1] = 2
        pats.append(("lastonly", v))
    return pats


def all_count_vectors(num_edges, alphabet=(0, 1, 2)):
    return itertools.product(alphabet, repeat=num_edges)


def scale_times(ts, c):
    t = ts.dump_tables()
    t.nodes.time = t.nodes.time * c
    t.mutations.time = np.full(t.mutations.num_rows, tskit.UNKNOWN_TIME)
    return t.tree_sequence()


def flag_internal_samples(ts, nodes):
    t = ts.dump_tables()
    fl = t.nodes.flags
    for u in nodes:
        fl[u] |= tskit.NODE_IS_SAMPLE
    t.nodes.flags = fl
    return t.tree_sequence()


def historical_leaf(ts, leaf, age):
    t = ts.dump_tables()
    tm = t.nodes.time
    tm[leaf] = age
    t.nodes.time = tm
    t.mutations.time = np.full(t.mutations.num_rows, tskit.UNKNOWN_TIME)
    return t.tree_sequence()


def merge_sites_per_locus(ts):
    """Recurrent-mutation decorator: all sites inside one unit locus are merged into a single site, so
    that sites carry several mutations on DIFFERENT nodes (unrelated branches and parent/child chains)."""
    t = ts.dump_tables()
    pos = ts.sites_position
    loc = np.floor(pos).astype(int)
    first = {}
    t.sites.clear()
    new_site = np.zeros(ts.num_sites, dtype=np.int32)
    for sid in range(ts.num_sites):
        l = int(loc[sid])
        if l not in first:
            first[l] = t.sites.add_row(float(pos[sid]), "A")
        new_site[sid] = first[l]
    t.mutations.site = new_site[ts.mutations_site]
    t.mutations.time = np.full(t.mutations.num_rows, tskit.UNKNOWN_TIME)
    for _ in range(2):  # tskit's mutation order within a site uses the parent column: sort to a fixed point
        t.sort()
        t.build_index()
        t.compute_mutation_parents()
    return t.tree_sequence()


def renumber_nodes(ts, how="reverse"):
    """Node-numbering decorator: keep sample ids, renumber the non-sample nodes.
    how = 'reverse' (oldest internal node gets the lowest internal id, as tsinfer does),
    'rotate' (cyclic shift by one) or an explicit list giving, for each new internal slot,
    the old node id.  Returns (ts, old_id_of_new)."""
    N = ts.num_nodes
    smp = [u for u in range(N) if ts.node(u).is_sample() and ts.nodes_time[u] == 0 and u not in set(ts.edges_parent)]
    inner = [u for u in range(N) if u not in set(smp)]
    if how == "reverse":
        new_inner = inner[::-1]
    elif how == "rotate":
        new_inner = inner[1:] + inner[:1]
    else:
        new_inner = list(how)
        assert sorted(new_inner) == inner
    order = []
    it = iter(new_inner)
    keep = set(smp)
    for u in range(N):
        order.append(u if u in keep else next(it))
    t = ts.dump_tables()
    t.subset(np.array(order, dtype=np.int32), record_provenance=False, reorder_populations=False, remove_unreferenced=False)
    t.sort()
    t.build_index()
    t.compute_mutation_parents()
    return t.tree_sequence(), order


def ts_to_json(ts):
    """Replayable plain description of a tree sequence (tables that matter)."""
    return {
        "sequence_length": ts.sequence_length,
        "nodes": [[int(nd.flags), float(nd.time), int(nd.individual)] for nd in ts.nodes()],
        "edges": [[e.left, e.right, int(e.parent), int(e.child)] for e in ts.edges()],
        "sites": [float(s.position) for s in ts.sites()],
        "mutations": [[int(m.site), int(m.node)] for m in ts.mutations()],
        "individuals": ts.num_individuals,
    }


def ts_from_json(d):
    t = tskit.TableCollection(sequence_length=d["sequence_length"])
    for _ in range(d.get("individuals", 0)):
        t.individuals.add_row()
    for fl, tm, ind in d["nodes"]:
        t.nodes.add_row(flags=fl, time=tm, individual=ind)
    for l, r, p, c in d["edges"]:
        t.edges.add_row(l, r, p, c)
    for pos in d["sites"]:
        t.sites.add_row(pos, "A")
    for s, u in d["mutations"]:
        t.mutations.add_row(s, u, derived_state="T")
    t.sort()
    t.build_index()
    t.compute_mutation_parents()
    return t.tree_sequence()


if __name__ == "__main__":
    import sys
    import time

    specs = DEEP if len(sys.argv) < 2 else [tuple(map(int, a.split(","))) for a in sys.argv[1:]]
    for n, L, R in specs:
        for simp in (True, False):
            t0 = time.time()
            u = universe(n, L, R, simplify=simp)
            mt = sum(1 for a in u["args"] if a["trees"] > 1)
            print(
                f"U({n},{L},{R}) simplify={simp}: states={u['states']} transitions={u['transitions']} "
                f"terminal_states={u['terminal_states']} distinct={len(u['args'])} multitree={mt} "
                f"t={time.time() - t0:.1f}s",
                flush=True,
            )


def isolate_sample(ts, s, loci, simplify=True):
    """K decorator: sample s becomes isolated (missing data) over the given unit loci"""
    t = ts.dump_tables()
    edges = t.edges.copy()
    t.edges.clear()
    for e in edges:
        if e.child == s:
            for l in range(int(e.left), int(e.right)):
                if l not in loci:
                    t.edges.add_row(l, l + 1, e.parent, e.child)
        else:
            t.edges.append(e)
    t.sort()
    t.edges.squash()
    t.sort()
    if simplify:
        t.simplify()
    return t.tree_sequence()
