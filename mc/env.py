"""Process environment for checks: must be applied BEFORE tsdate/numba are imported.

* tsdate is imported from /repo's working tree (editable install in /venv).
* numba's on-disk cache is enabled through the repository's own switch
  TSDATE_ENABLE_NUMBA_CACHE, in a directory keyed on a hash of every source file
  of /repo/tsdate: a source edit can therefore never be served stale machine code
  (numba does not track cross-file callee changes by itself).
* nothing is written under /repo.
"""

import hashlib
import os
import shutil
import sys
import tempfile
import time

VERIF = os.path.dirname(os.path.dirname(os.path.abspath(__file__)))
REPO = os.environ.get("VERIF_REPO", "/repo")
BUILD = os.path.join(VERIF, "build")


def source_hash():
    h = hashlib.sha256()
    src = os.path.join(REPO, "tsdate")
    for name in sorted(os.listdir(src)):
        if name.endswith(".py"):
            h.update(name.encode())
            with open(os.path.join(src, name), "rb") as f:
                h.update(f.read())
    h.update(sys.version.encode())
    try:
        import numba

        h.update(numba.__version__.encode())
    except Exception:
        pass
    return h.hexdigest()[:20]


def _gc_caches(root, keep=6):
    try:
        dirs = [os.path.join(root, d) for d in os.listdir(root)]
        dirs = [d for d in dirs if os.path.isdir(d)]
        dirs.sort(key=lambda d: os.path.getmtime(d), reverse=True)
        for d in dirs[keep:]:
            shutil.rmtree(d, ignore_errors=True)
    except OSError:
        pass


def setup(scratch_prefix="tsdverif"):
    """Set the environment; returns the per-run scratch dir (caller removes it)."""
    os.environ.setdefault("PYTHONHASHSEED", "0")
    os.environ["PYTHONDONTWRITEBYTECODE"] = "1"
    sys.dont_write_bytecode = True
    nbroot = os.path.join(BUILD, "nbcache")
    os.makedirs(nbroot, exist_ok=True)
    nbdir = os.path.join(nbroot, source_hash())
    if not os.path.isdir(nbdir):
        _gc_caches(nbroot)
        os.makedirs(nbdir, exist_ok=True)
    else:
        os.utime(nbdir, None)
    os.environ["TSDATE_ENABLE_NUMBA_CACHE"] = "1"
    os.environ["NUMBA_CACHE_DIR"] = nbdir
    scratch = tempfile.mkdtemp(prefix=scratch_prefix + "_")
    os.environ["XDG_CACHE_HOME"] = os.path.join(scratch, "xdg")
    os.makedirs(os.environ["XDG_CACHE_HOME"], exist_ok=True)
    if REPO not in sys.path:
        sys.path.insert(0, REPO)
    return scratch


def import_tsdate():
    import logging
    import warnings

    t0 = time.time()
    import tsdate  # noqa: F401

    assert os.path.realpath(os.path.dirname(tsdate.__file__)) == os.path.realpath(
        os.path.join(REPO, "tsdate")
    ), f"tsdate imported from {tsdate.__file__}, expected {REPO}"
    logging.getLogger("tsdate").setLevel(logging.CRITICAL)
    logging.getLogger().setLevel(logging.CRITICAL)
    warnings.filterwarnings("ignore")
    return time.time() - t0
