"""Shared input/config alphabets for checks that drive date() and the named methods."""

import itertools

import numpy as np
import tskit

from . import tsspace

SCALES = {"2^-20": 2.0**-20, "1": 1.0, "1e4": 1e4, "2^28": 2.0**28, "1e12": 1e12}


def build_input(case):
    """case: {'arg':..., 'mut':[counts], 'scale':name, 'H':{'kind':...}, 'above_root':0/1}"""
    ts = tsspace.arg_ts(case["arg"])
    mut = case["mut"]
    if case.get("K"):  # missing data: sample K[0] isolated over locus K[1] (re-simplified); the pattern is cycled to fit
        ts = tsspace.isolate_sample(ts, case["K"][0], [case["K"][1]])
        mut = (list(mut) * (ts.num_edges // max(1, len(mut)) + 1))[: ts.num_edges]
    ts = tsspace.add_mutations(ts, mut, above_root=case.get("above_root", 0), recurrent=case.get("recurrent", False))
    if case.get("merge_sites"):
        ts = tsspace.merge_sites_per_locus(ts)
    s = SCALES[case.get("scale", "1")]
    H = case.get("H", {"kind": "cont"})
    if H["kind"] == "internal":
        ts = tsspace.flag_internal_samples(ts, H["nodes"])
    if s != 1.0:
        ts = tsspace.scale_times(ts, s)
    if H["kind"] == "hist":
        ts = tsspace.historical_leaf(ts, H["leaf"], 0.5 * s)
    if case.get("diploid"):
        ts = add_individuals(ts)
    if case.get("renumber"):
        ts, _ = tsspace.renumber_nodes(ts, case["renumber"])
    return ts, s


def add_individuals(ts, pairs=None):
    """pair up contemporary leaf samples (0,1),(2,3),... into diploid individuals"""
    t = ts.dump_tables()
    smp = [u for u in ts.samples() if ts.nodes_time[u] == 0]
    if pairs is None:
        pairs = [(smp[i], smp[i + 1]) for i in range(0, len(smp) - 1, 2)]
    ind = t.nodes.individual.copy()
    for a, b in pairs:
        i = t.individuals.add_row()
        ind[a] = i
        ind[b] = i
    t.nodes.individual = ind
    return t.tree_sequence()


def H_menu(ts_arg, tier, internal=True, hist=True):
    """sample-age / sample-flag decorators for an ARG (ids refer to the simplified ts)"""
    out = [{"kind": "cont"}]
    ts = tsspace.arg_ts(ts_arg)
    n = ts_arg["n"]
    if hist:
        out.append({"kind": "hist", "leaf": 0})
    if internal:
        inner = [u for u in range(n, ts.num_nodes)]
        if tier == "quick":
            inner = inner[:1] + inner[-1:] if len(inner) > 1 else inner
        for u in inner:
            out.append({"kind": "internal", "nodes": [u]})
    return out


def vg_configs(level="small"):
    """variational_gamma option vectors; always contains rescaling off (see DESIGN F2)."""
    base = [
        {"rescaling_intervals": 0},
        {},  # defaults: 1000 intervals
        {"rescaling_intervals": 2},
        {"rescaling_intervals": 2, "match_segregating_sites": True},
    ]
    if level != "small":
        base += [
            {"rescaling_intervals": 1, "rescaling_iterations": 1},
            {"rescaling_intervals": 0, "max_iterations": 1},
            {"rescaling_intervals": 0, "max_shape": 2.0},
            {"rescaling_intervals": 2, "regularise_roots": False},
        ]
    return base


def method_call(method, ts, mu, cfg, popsize=None):
    import tsdate

    kw = dict(cfg)
    if method == "variational_gamma":
        return tsdate.variational_gamma(ts, mutation_rate=mu, **kw)
    if method == "inside_outside":
        return tsdate.inside_outside(ts, mutation_rate=mu, population_size=popsize, **kw)
    if method == "maximization":
        return tsdate.maximization(ts, mutation_rate=mu, population_size=popsize, **kw)
    raise KeyError(method)


def warmup_all():
    """compile lazily jitted kernels once in the parent before forking"""
    import tsdate

    a = tsspace.universe(3, 2, 1)["args"][3]
    ts = tsspace.add_mutations(tsspace.arg_ts(a), [1 + (i % 2) for i in range(tsspace.arg_ts(a).num_edges)])
    for kw in ({"rescaling_intervals": 0}, {"rescaling_intervals": 2}, {"rescaling_intervals": 2, "match_segregating_sites": True}):
        try:
            tsdate.variational_gamma(ts, mutation_rate=1.0, **kw)
        except Exception:
            pass
    tsd = add_individuals(ts)
    try:
        tsdate.variational_gamma(tsd, mutation_rate=1.0, rescaling_intervals=2, singletons_phased=False)
    except Exception:
        pass
    try:
        tsdate.variational_gamma(tsspace.flag_internal_samples(ts, [3]), mutation_rate=1.0, rescaling_intervals=0)
        tsdate.variational_gamma(tsspace.historical_leaf(ts, 0, 0.5), mutation_rate=1.0, rescaling_intervals=0, constr_iterations=3)
    except Exception:
        pass
    for sp in ("linear", "logarithmic"):
        tsdate.inside_outside(ts, mutation_rate=1.0, population_size=1.0, probability_space=sp)
        tsdate.maximization(ts, mutation_rate=1.0, population_size=1.0, probability_space=sp)


def out_parent_at(ts, node, position):
    tree = ts.at(position)
    return tree.parent(node)
