"""I/O seam for the prior cache (C36): every file-system operation on paths under one root is
(i) announced to a hook BEFORE it is performed (scheduling point) and (ii) appended to an op log.

Files are real files; the Python I/O stack is rebuilt by hand -- InstrumentedFileIO(io.FileIO) ->
BufferedWriter/Reader -> TextIOWrapper -- so hooks fire exactly at raw read/write calls, i.e. at
system-call boundaries.  The raw layer may answer any write/read short (POSIX allows it and the
buffered layers retry), which is how the harness controls granularity.  No repository change is
needed: builtins.open / io.open / numpy's captured opener / os.open, stat, replace, rename, remove,
unlink, fsync are patched for paths under the root only.
"""

import builtins
import io
import os
import threading


class InstrumentedFileIO(io.FileIO):
    def __init__(self, shim, path, file, mode, closefd=True):
        self._shim = shim
        self._vpath = path
        self._logged_close = False
        self._h = shim.new_handle()
        shim.log[-1]["h"] = self._h  # the 'open' record announced just before this constructor
        super().__init__(file, mode, closefd=closefd)

    def write(self, b):
        data = bytes(b)
        if self._shim.write_chunk and len(data) > self._shim.write_chunk:
            data = data[: self._shim.write_chunk]
        self._shim.op("write", self._vpath, data=data, offset=self.tell(), h=self._h)
        return super().write(data)

    def readinto(self, b):
        mv = memoryview(b)
        if self._shim.read_chunk and len(mv) > self._shim.read_chunk:
            mv = mv[: self._shim.read_chunk]
        self._shim.op("read", self._vpath, offset=self.tell(), size=len(mv))
        return super().readinto(mv)

    def close(self):
        if not self.closed and not self._logged_close:
            self._logged_close = True
            self._shim.op("close", self._vpath)
        super().close()


class Shim:
    def __init__(self, root, hook=None, write_chunk=None, read_chunk=None):
        self.root = os.path.realpath(root)
        self.hook = hook
        self.write_chunk = write_chunk
        self.read_chunk = read_chunk
        self.log = []
        self.fdpath = {}
        self._orig = None
        self._nh = 0

    def new_handle(self):
        self._nh += 1
        return self._nh

    # ------------------------------------------------------------------ bookkeeping
    def mine(self, path):
        if isinstance(path, int):
            return self.fdpath.get(path)
        try:
            p = os.path.abspath(os.fspath(path))
        except TypeError:
            return None
        if isinstance(p, bytes):
            p = p.decode()
        return p if p.startswith(self.root + os.sep) else None

    def rel(self, p):
        return os.path.relpath(p, self.root)

    def op(self, kind, path, **kw):
        rec = dict(op=kind, path=self.rel(path), thread=threading.current_thread().name, **kw)
        if self.hook is not None:
            self.hook(rec)  # scheduling point: returns when this thread may perform the operation
        self.log.append(rec)
        return rec

    # ------------------------------------------------------------------ patched entry points
    def _open(self, file, mode="r", buffering=-1, encoding=None, errors=None, newline=None, closefd=True, opener=None):
        path = self.mine(file)
        if path is None or opener is not None:
            return self._orig["open"](file, mode, buffering, encoding, errors, newline, closefd, opener)
        binary = "b" in mode
        raw_mode = "".join(ch for ch in mode if ch in "rwax+")
        self.op("open", path, mode=raw_mode, by_fd=isinstance(file, int))
        raw = InstrumentedFileIO(self, path, file, raw_mode, closefd=closefd)
        if "+" in raw_mode:
            buf = io.BufferedRandom(raw)
        elif raw_mode[0] in "wax":
            buf = io.BufferedWriter(raw)
        else:
            buf = io.BufferedReader(raw)
        if binary:
            return buf
        return io.TextIOWrapper(buf, encoding=encoding, errors=errors, newline=newline)

    def _os_open(self, path, flags, mode=0o777, *, dir_fd=None):
        p = self.mine(path)
        if p is None or dir_fd is not None:
            return self._orig["os.open"](path, flags, mode, dir_fd=dir_fd)
        self.op("os_open", p, flags=int(flags))
        fd = self._orig["os.open"](path, flags, mode)
        self.fdpath[fd] = p
        return fd

    def _stat(self, path, *a, **k):
        p = self.mine(path) if not isinstance(path, int) else None
        if p is not None:
            self.op("stat", p)
        return self._orig["os.stat"](path, *a, **k)

    def _two(self, name):
        def f(src, dst, *a, **k):
            ps, pd = self.mine(src), self.mine(dst)
            if ps is not None and pd is not None:
                self.op("replace", ps, dst=self.rel(pd))
            return self._orig[name](src, dst, *a, **k)

        return f

    def _one(self, name, kind):
        def f(path, *a, **k):
            p = self.mine(path)
            if p is not None:
                self.op(kind, p)
            return self._orig[name](path, *a, **k)

        return f

    def install(self):
        import numpy as np

        fo = np.lib._datasource._file_openers
        fo._load()
        self._orig = {
            "open": builtins.open,
            "io.open": io.open,
            "np": fo._file_openers[None],
            "os.open": os.open,
            "os.stat": os.stat,
            "os.replace": os.replace,
            "os.rename": os.rename,
            "os.remove": os.remove,
            "os.unlink": os.unlink,
            "os.fsync": os.fsync,
        }
        builtins.open = self._open
        io.open = self._open
        fo._file_openers[None] = self._open
        os.open = self._os_open
        os.stat = self._stat
        os.replace = self._two("os.replace")
        os.rename = self._two("os.rename")
        os.remove = self._one("os.remove", "unlink")
        os.unlink = self._one("os.unlink", "unlink")
        os.fsync = self._one("os.fsync", "fsync")
        return self

    def uninstall(self):
        import numpy as np

        o = self._orig
        builtins.open = o["open"]
        io.open = o["io.open"]
        np.lib._datasource._file_openers._file_openers[None] = o["np"]
        os.open, os.stat, os.replace, os.rename = o["os.open"], o["os.stat"], o["os.replace"], o["os.rename"]
        os.remove, os.unlink, os.fsync = o["os.remove"], o["os.unlink"], o["os.fsync"]
        self._orig = None

    def __enter__(self):
        return self.install()

    def __exit__(self, *a):
        self.uninstall()


# ---------------------------------------------------------------------- file-system model
def apply_ops(files, ops):
    """Boring reference model of the directory.  Names point at inodes and open handles keep writing to
    their inode after a rename (POSIX).  Process-crash semantics: every completed system call is durable;
    user-space buffers are not modelled (they are lost).  `files` (dict relpath -> bytes) is the start
    state; returns the resulting dict."""
    inodes = {}
    names = {}
    handles = {}
    for i, (p, data) in enumerate(files.items()):
        inodes[-1 - i] = data
        names[p] = -1 - i
    nxt = [0]

    def new_inode():
        nxt[0] += 1
        inodes[nxt[0]] = b""
        return nxt[0]

    for rec in ops:
        k, p = rec["op"], rec["path"]
        if k == "open":
            if not rec.get("by_fd"):
                if rec["mode"][0] == "w":
                    if p not in names:
                        names[p] = new_inode()
                    inodes[names[p]] = b""
                elif rec["mode"][0] in "ax" and p not in names:
                    names[p] = new_inode()
            if "h" in rec and p in names:
                handles[rec["h"]] = names[p]
        elif k == "os_open":
            fl = rec["flags"]
            if fl & os.O_CREAT and p not in names:
                names[p] = new_inode()
            if fl & os.O_TRUNC and p in names:
                inodes[names[p]] = b""
        elif k == "write":
            ino = handles.get(rec.get("h"), names.get(p))
            if ino is None:
                continue
            cur = inodes[ino]
            off, data = rec["offset"], rec["data"]
            if len(cur) < off:
                cur = cur + b"\0" * (off - len(cur))
            inodes[ino] = cur[:off] + data + cur[off + len(data):]
        elif k == "replace":
            if p in names:
                names[rec["dst"]] = names.pop(p)
        elif k == "unlink":
            names.pop(p, None)
    files.clear()
    files.update({p: inodes[i] for p, i in names.items()})
    return files


def crash_states(log):
    """All process-crash states of one op log: every prefix of the log, and for an in-flight write every
    byte cut of its payload.  Yields (label, files)."""
    seen = set()
    for i in range(len(log) + 1):
        cuts = [None]
        if i < len(log) and log[i]["op"] == "write":
            cuts += list(range(1, len(log[i]["data"])))
        for c in cuts:
            ops = list(log[:i])
            if c is not None:
                rec = dict(log[i])
                rec["data"] = rec["data"][:c]
                ops.append(rec)
            files = apply_ops({}, ops)
            key = tuple(sorted(files.items()))
            if key in seen:
                continue
            seen.add(key)
            yield (i, c), files


def materialize(files, root):
    os.makedirs(root, exist_ok=True)
    for rel, data in files.items():
        p = os.path.join(root, rel)
        os.makedirs(os.path.dirname(p), exist_ok=True)
        with open(p, "wb") as f:
            f.write(data)


def snapshot(root):
    out = {}
    for d, _, fs in os.walk(root):
        for f in fs:
            p = os.path.join(d, f)
            with open(p, "rb") as fh:
                out[os.path.relpath(p, root)] = fh.read()
    return out
