"""validate MANIFEST.json and every evidence file against the schemas"""
import json, sys, glob, os
import jsonschema
V = os.path.dirname(os.path.dirname(os.path.abspath(__file__)))
ok = True
ms = json.load(open("/root/.vp/MANIFEST.schema.json")); es = json.load(open("/root/.vp/EVIDENCE.schema.json"))
m = json.load(open(os.path.join(V, "MANIFEST.json")))
try:
    jsonschema.validate(m, ms); print("MANIFEST ok:", len(m["checks"]), "checks;", len(m.get("not_applicable", [])), "n/a")
except jsonschema.ValidationError as e:
    ok = False; print("MANIFEST INVALID", e.message)
props = [json.loads(l)["id"] for l in open(os.path.join(V, "properties.jsonl"))]
claimed = [c["property_id"] for c in m["checks"]]; na = [c["property_id"] for c in m.get("not_applicable", [])]
for p in props:
    if (p in claimed) == (p in na):
        ok = False; print("property", p, "claimed" if p in claimed else "neither claimed nor n/a")
for f in sorted(glob.glob(os.path.join(V, "evidence", "*.json"))):
    try:
        jsonschema.validate(json.load(open(f)), es)
    except jsonschema.ValidationError as e:
        ok = False; print("EVIDENCE INVALID", f, e.message)
for c in m["checks"]:
    if not os.path.exists(os.path.join(V, c["evidence_file"]) if not c["evidence_file"].startswith("/") else c["evidence_file"]):
        print("missing evidence for", c["property_id"])
sys.exit(0 if ok else 1)
