"""Regenerate MANIFEST.json from checks/registry.py (keeps it valid at all times)."""
import json, os, sys
V = os.path.dirname(os.path.dirname(os.path.abspath(__file__)))
sys.path.insert(0, V)
from checks.registry import REGISTRY, NOT_APPLICABLE, HOOK_COMMITS

props = [json.loads(l) for l in open(os.path.join(V, "properties.jsonl"))]
checks = []
na = []
for p in props:
    pid = p["id"]
    if pid in REGISTRY and os.path.exists(os.path.join(V, "checks", pid + ".py")):
        r = REGISTRY[pid]
        checks.append({
            "property_id": pid,
            "quick_cmd": f"./check {pid} quick",
            "thorough_cmd": f"./check {pid} thorough",
            "evidence_file": f"evidence/{pid}.json",
            "replay_cmd_template": f"./check {pid} --replay {{path}}",
            "engine": "mc-explore",
            "level_claimed": {"category": r["level"], "text": r["text"], "design_ref": r.get("ref", f"DESIGN.md §2 {pid}")},
            "level_note": r["note"],
            "technique": r["technique"],
        })
    else:
        na.append({"property_id": pid, "reason": NOT_APPLICABLE.get(pid, "check not implemented yet in this revision (planned, see DESIGN.md §2); nothing is claimed")})
m = {
    "version": 1,
    "setup_cmd": "./setup.sh",
    "hooks": {
        "guard": "TSDATE_VERIF",
        "enable": "no source hooks: checks import /repo's working tree directly and reach every seam by monkey-patching from the harness; the guard variable is unused by /repo",
        "baseline_off_cmd": "cd /repo && /venv/bin/python -m pytest -ra -q -p no:cacheprovider --timeout=900 --continue-on-collection-errors",
        "source_commits": HOOK_COMMITS,
        "add_only": True,
    },
    "engines": [{
        "name": "mc-explore",
        "path": "mc/",
        "serves_properties": [c["property_id"] for c in checks],
        "kind_free_text": "hand-written explicit-state explorer: breadth-first enumeration with canonical hashing of an ancestral-recombination transition system (tree-sequence inputs), complete products of finite decorator/option alphabets, crash-point / schedule / completion-order enumerators; every terminal state is executed on the real tsdate code and judged by an independent reference model",
    }],
    "checks": checks,
    "not_applicable": na,
    "notes": "See DESIGN.md. ./check <id> quick|thorough rebuilds nothing but imports /repo's working tree; numba machine code is cached under build/nbcache/<hash of /repo/tsdate/*.py>. known_findings.json lists genuine defects (known / fixed).",
}
json.dump(m, open(os.path.join(V, "MANIFEST.json"), "w"), indent=1)
print("wrote MANIFEST.json with", len(checks), "checks,", len(na), "not applicable")
