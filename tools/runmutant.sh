#!/bin/bash
# tools/runmutant.sh <repo-or-worktree-with-mutant> <tier> <check> [<check>...]
# runs checks against another checkout without touching /verif/evidence or /verif/replays
R=$1; T=$2; shift 2
export VERIF_REPO=$R VERIF_EVIDENCE_DIR=/tmp/mut_evidence VERIF_REPLAY_DIR=/tmp/mut_replays
mkdir -p $VERIF_EVIDENCE_DIR $VERIF_REPLAY_DIR
cd "$(dirname "$0")/.."
for c in "$@"; do
  ./check $c $T 2>&1 | grep -v WARNING | grep -E "^\[|^VIOLATION|^  kind|^KNOWN|HARNESS" | head -12
  echo "exit=${PIPESTATUS[0]}"
done
