#!/bin/bash
# tools/confirm_seed.sh <worktree> <seed-id> : confirm a sub-agent's seeded change ourselves, then file it under /verif/seeded/<seed-id>/
# (suite passes with the change; demo exits 1 with it and 0 without it)
W=$1; ID=$2
D=/verif/seeded/$ID; mkdir -p $D
cd $W || exit 2
git diff -- tsdate > /tmp/confirm_$ID.diff
if ! diff -q /tmp/confirm_$ID.diff _seed/patch.diff >/dev/null; then echo "NOTE: worktree diff differs from _seed/patch.diff; using worktree diff"; fi
cp /tmp/confirm_$ID.diff $D/patch.diff
cp _seed/demo.py $D/demo.py
cp _seed/notes.md $D/notes.md 2>/dev/null
echo "[$ID] suite with change ..."
/venv/bin/python -m pytest -q -p no:cacheprovider --timeout=900 -n ${CONFIRM_N:-8} tests 2>&1 | tail -1 > $D/suite_with_change.txt
cat $D/suite_with_change.txt
PYTHONPATH=$W timeout 1200 /venv/bin/python _seed/demo.py > $D/demo_with_change.txt 2>&1; A=$?
git apply -R $D/patch.diff
PYTHONPATH=$W timeout 1200 /venv/bin/python _seed/demo.py > $D/demo_without_change.txt 2>&1; B=$?
git apply $D/patch.diff
echo "[$ID] demo with change exit=$A, without exit=$B"
echo "{\"suite_with_change\": \"$(cat $D/suite_with_change.txt | tr -d '\"')\", \"demo_exit_with_change\": $A, \"demo_exit_without_change\": $B}" > $D/confirm.json
